(** Lemmas for property C14, part 4: the exporter writes the content.
    [export_content]: for a [proto_exportable] library the exporter returns a message, the
    message says what the library says (shapes grouped as [spec_group] says, cells in
    dependency order, hash-map entries in the oracle's order), and the message has every field
    the importer needs. *)
From Coq Require Import ZArith NArith List String Bool Lia Permutation Arith.
From L21 Require Import Base.F64 Base.Outcome Raw.RawData Raw.RawProto Raw.RawProtoSpec
  Raw.RawProtoBase_proofs Raw.RawProtoImport_proofs Raw.RawProtoOrder_proofs Raw.RawProtoTotal_proofs.
Import ListNotations.
Local Open Scope list_scope.
Local Open Scope Z_scope.

(** * lists *)
Lemma mapM_exists : forall (A B : Type) (f : A -> res B) (Q : A -> B -> Prop) l,
  (forall x, In x l -> exists y, f x = Ok y /\ Q x y) -> exists ys, mapM f l = Ok ys /\ Forall2 Q l ys.
Proof.
  induction l as [|x r IH]; intros H; simpl.
  - exists []. split; auto.
  - destruct (H x (or_introl eq_refl)) as [y [Hy Qy]]. destruct IH as [ys [Hys Qs]]; [intros; apply H; right; auto|].
    exists (y :: ys). rewrite Hy, Hys. simpl. split; auto.
Qed.
Lemma Forall2_exists : forall (A B : Type) (R : A -> B -> Prop) l,
  (forall x, In x l -> exists y, R x y) -> exists ys, Forall2 R l ys.
Proof.
  induction l as [|x r IH]; intros H; [exists []; auto|].
  destruct (H x (or_introl eq_refl)) as [y Hy]. destruct IH as [ys Hys]; [intros; apply H; right; auto|]. eauto.
Qed.
Lemma Forall2_perm : forall (A B : Type) (R : A -> B -> Prop) l l', Permutation l l' ->
  forall ys, Forall2 R l ys -> exists ys', Permutation ys ys' /\ Forall2 R l' ys'.
Proof.
  induction 1; intros ys H2.
  - inversion H2; subst. exists []. auto.
  - inversion H2; subst. destruct (IHPermutation _ H5) as [ys' [Hp Hf]]. exists (y :: ys'). auto.
  - inversion H2; subst. inversion H4; subst. exists (y1 :: y0 :: l'0). split; [apply perm_swap|auto].
  - destruct (IHPermutation1 _ H2) as [ys1 [Hp1 Hf1]]. destruct (IHPermutation2 _ Hf1) as [ys2 [Hp2 Hf2]].
    exists ys2. split; auto. eapply perm_trans; eauto.
Qed.
Lemma Forall2_fun : forall (A B : Type) (R : A -> B -> Prop), (forall x y y', R x y -> R x y' -> y = y') ->
  forall l ys ys', Forall2 R l ys -> Forall2 R l ys' -> ys = ys'.
Proof.
  intros A B R HR. induction l; intros ys ys' H1 H2; inversion H1; inversion H2; subst; auto.
  f_equal; eauto.
Qed.
Lemma filter_map_comm : forall (A B : Type) (f : A -> B) (p : B -> bool) l,
  filter p (map f l) = map f (filter (fun x => p (f x)) l).
Proof. induction l; simpl; auto. destruct (p (f a)); simpl; rewrite IHl; auto. Qed.
Lemma by_kind_map : forall (A B : Type) (f : A -> B) (sh : B -> shape) l,
  by_kind sh (map f l) = map f (by_kind (fun x => sh (f x)) l).
Proof. intros. unfold by_kind. rewrite !filter_map_comm, !map_app. reflexivity. Qed.
Lemma by_kind_ext : forall (A : Type) (sh sh' : A -> shape) l, (forall x, In x l -> sh x = sh' x) -> by_kind sh l = by_kind sh' l.
Proof.
  intros. unfold by_kind. f_equal; [|f_equal]; apply filter_ext_in; intros x Hx; rewrite H; auto.
Qed.
Lemma filter_all : forall (A : Type) (p : A -> bool) l, (forall x, In x l -> p x = true) -> filter p l = l.
Proof. induction l; simpl; intros; auto. rewrite H by auto. f_equal; auto. Qed.
Lemma filter_none : forall (A : Type) (p : A -> bool) l, (forall x, In x l -> p x = false) -> filter p l = [].
Proof. induction l; simpl; intros; auto. rewrite H by auto. auto. Qed.
Lemma kinds_excl : forall s, (is_rect s = true -> is_poly s = false /\ is_path s = false) /\
  (is_poly s = true -> is_rect s = false /\ is_path s = false) /\ (is_path s = true -> is_rect s = false /\ is_poly s = false).
Proof. destruct s; simpl; repeat split; auto; discriminate. Qed.
(** grouping by kind twice is grouping once *)
Ltac kind_tac :=
  let x := fresh "x" in let Hx := fresh "Hx" in
  intros x Hx;
  match goal with
  | K : forall y, In y ?L -> _ /\ _, H : In _ ?L |- _ => destruct (K _ H); assumption
  end.
Lemma by_kind_idem : forall (A : Type) (sh : A -> shape) l, by_kind sh (by_kind sh l) = by_kind sh l.
Proof.
  intros. unfold by_kind.
  set (R := filter (fun x => is_rect (sh x)) l). set (G := filter (fun x => is_poly (sh x)) l). set (P := filter (fun x => is_path (sh x)) l).
  rewrite !filter_app.
  assert (HR : forall x, In x R -> is_rect (sh x) = true) by (intros x Hx; apply filter_In in Hx; tauto).
  assert (HG : forall x, In x G -> is_poly (sh x) = true) by (intros x Hx; apply filter_In in Hx; tauto).
  assert (HP : forall x, In x P -> is_path (sh x) = true) by (intros x Hx; apply filter_In in Hx; tauto).
  assert (KR : forall x, In x R -> is_poly (sh x) = false /\ is_path (sh x) = false) by (intros x Hx; apply HR in Hx; destruct (sh x); simpl in *; split; congruence).
  assert (KG : forall x, In x G -> is_rect (sh x) = false /\ is_path (sh x) = false) by (intros x Hx; apply HG in Hx; destruct (sh x); simpl in *; split; congruence).
  assert (KP : forall x, In x P -> is_rect (sh x) = false /\ is_poly (sh x) = false) by (intros x Hx; apply HP in Hx; destruct (sh x); simpl in *; split; congruence).
  rewrite (filter_all _ _ R) by auto.
  rewrite (filter_none _ (fun x => is_rect (sh x)) G) by kind_tac.
  rewrite (filter_none _ (fun x => is_rect (sh x)) P) by kind_tac.
  rewrite (filter_none _ (fun x => is_poly (sh x)) R) by kind_tac.
  rewrite (filter_all _ _ G) by auto.
  rewrite (filter_none _ (fun x => is_poly (sh x)) P) by kind_tac.
  rewrite (filter_none _ (fun x => is_path (sh x)) R) by kind_tac.
  rewrite (filter_none _ (fun x => is_path (sh x)) G) by kind_tac.
  rewrite (filter_all _ _ P) by auto. rewrite !app_nil_r. reflexivity.
Qed.
Lemma by_kind_In : forall (A : Type) (sh : A -> shape) l x, In x (by_kind sh l) <-> In x l.
Proof.
  intros. unfold by_kind. rewrite !in_app_iff, !filter_In. destruct (sh x) eqn:E; simpl; rewrite ?E; simpl; tauto.
Qed.
Lemma norm_kind : forall s, is_rect (norm_shape s) = is_rect s /\ is_poly (norm_shape s) = is_poly s /\ is_path (norm_shape s) = is_path s.
Proof. destruct s; simpl; auto. Qed.

(** * shapes *)
Definition pshape_ns (ps : pshape) : option (string * shape) :=
  match ps with
  | PSRect r => option_map (pair (pr_net r)) (prect_shape r)
  | PSPoly g => Some (pg_net g, ppoly_shape g)
  | PSPath p => Some (pp_net p, ppath_shape p)
  end.
Lemma pt_export : forall p, pt_content (export_point p) = p.
Proof. destruct p; reflexivity. Qed.
Lemma map_pt_export : forall l, map pt_content (map export_point l) = l.
Proof. induction l; simpl; auto. rewrite pt_export, IHl. auto. Qed.
Lemma i64_okb_intro : forall z, i64_min <= z <= i64_max -> i64_okb z = true.
Proof. intros z [H1 H2]. unfold i64_okb. apply andb_true_intro. split; apply Z.leb_le; auto. Qed.

(** what the importer needs of a shape *)
Definition ps_imp (ps : pshape) : Prop :=
  match ps with PSRect r => prect_imp r | PSPoly _ => True | PSPath p => 0 <= pp_width p end.

Lemma export_shape_ok : forall s, shape_ok s ->
  exists ps, export_shape s = Ok ps /\ pshape_ns ps = Some (EmptyString, norm_shape s) /\ ps_imp ps.
Proof.
  intros [p0 p1|pts|pts w] H; simpl in H.
  - destruct H as [Hx0 [Hy0 [Hx1 [Hy1 [Hdx Hdy]]]]]. unfold i64_ok, i64_min, i64_max, two63 in *.
    unfold export_shape, export_rect.
    rewrite !i64_okb_intro by (unfold i64_min, i64_max, two63; lia). simpl.
    eexists. split; [reflexivity|]. split.
    + simpl. unfold prect_shape. simpl. do 3 f_equal; f_equal; lia.
    + simpl. unfold prect_imp. simpl. eexists. split; [reflexivity|]. simpl. unfold i64_ok, i64_min, i64_max, two63. lia.
  - eexists. split; [reflexivity|]. split; [|exact I]. simpl. unfold ppoly_shape. simpl. rewrite map_pt_export. reflexivity.
  - unfold export_shape, export_path. destruct (Z.leb_spec w i64_max); [|lia]. simpl.
    eexists. split; [reflexivity|]. split; [|simpl; lia]. simpl. unfold ppath_shape. simpl. rewrite map_pt_export. reflexivity.
Qed.
Lemma pshape_ns_set_net : forall ps net0 sh net, pshape_ns ps = Some (net0, sh) -> pshape_ns (pshape_set_net ps net) = Some (net, sh).
Proof.
  intros [r|g|p] net0 sh net H; simpl in *.
  - unfold prect_shape in *. simpl. destruct (pr_ll r); simpl in *; inversion H; auto.
  - inversion H; auto. - inversion H; auto.
Qed.
Lemma ps_imp_set_net : forall ps net, ps_imp ps -> ps_imp (pshape_set_net ps net).
Proof. intros [r|g|p] net H; simpl in *; auto. Qed.
Lemma export_element_ok : forall e, shape_ok (e_shape e) ->
  exists ps net, export_element e = Ok ps /\ pshape_ns ps = Some (net, norm_shape (e_shape e)) /\
    net_content net = raw_net_content (e_net e) /\ ps_imp ps.
Proof.
  intros e H. destruct (export_shape_ok _ H) as [ps [E [Hns Hi]]]. unfold export_element. rewrite E. simpl.
  destruct (e_net e) as [net|].
  - exists (pshape_set_net ps net), net. split; auto. split; [eapply pshape_ns_set_net; eauto|]. split; [reflexivity|apply ps_imp_set_net; auto].
  - exists ps, EmptyString. split; auto.
Qed.

(** * one LayerShapes *)
Definition rects_of (pss : list pshape) : list prect := flat_map (fun ps => match ps with PSRect r => [r] | _ => [] end) pss.
Definition polys_of (pss : list pshape) : list ppoly := flat_map (fun ps => match ps with PSPoly r => [r] | _ => [] end) pss.
Definition paths_of (pss : list pshape) : list ppath := flat_map (fun ps => match ps with PSPath r => [r] | _ => [] end) pss.
Lemma pls_push_fold : forall pss acc,
  fold_left pls_push pss acc =
  mkpls (pls_layer acc) (pls_rects acc ++ rects_of pss) (pls_polys acc ++ polys_of pss) (pls_paths acc ++ paths_of pss).
Proof.
  induction pss as [|ps r IH]; intros acc; simpl.
  - rewrite !app_nil_r. destruct acc; reflexivity.
  - rewrite IH. destruct ps; simpl; rewrite <- ?app_assoc; reflexivity.
Qed.
Lemma pls_of_fields : forall l pss, pls_of l pss = mkpls (Some l) (rects_of pss) (polys_of pss) (paths_of pss).
Proof. intros. unfold pls_of. rewrite pls_push_fold. reflexivity. Qed.

Lemma prect_shape_rect : forall r s, prect_shape r = Some s -> is_rect s = true /\ is_poly s = false /\ is_path s = false.
Proof. intros r s H. unfold prect_shape in H. destruct (pr_ll r); inversion H; subst. simpl. auto. Qed.

Lemma fields_shapes : forall pss nss, Forall2 (fun ps ns => pshape_ns ps = Some ns) pss nss ->
  omapM (fun r => option_map (pair (pr_net r)) (prect_shape r)) (rects_of pss) = Some (filter (fun ns => is_rect (snd ns)) nss) /\
  map (fun p => (pg_net p, ppoly_shape p)) (polys_of pss) = filter (fun ns => is_poly (snd ns)) nss /\
  map (fun p => (pp_net p, ppath_shape p)) (paths_of pss) = filter (fun ns => is_path (snd ns)) nss.
Proof.
  induction 1 as [|ps ns pss nss H _ [IH1 [IH2 IH3]]]; simpl; auto.
  destruct ps as [r|g|p]; simpl in *.
  - destruct (prect_shape r) as [s|] eqn:E; simpl in H; inversion H; subst. simpl.
    destruct (prect_shape_rect _ _ E) as [K1 [K2 K3]]. rewrite K1, K2, K3, IH1. auto.
  - inversion H; subst. simpl. rewrite IH2. auto.
  - inversion H; subst. simpl. rewrite IH3. auto.
Qed.
Lemma pls_of_shapes : forall l pss nss, Forall2 (fun ps ns => pshape_ns ps = Some ns) pss nss ->
  pls_shapes (pls_of l pss) = Some (by_kind snd nss).
Proof.
  intros l pss nss H. rewrite pls_of_fields. unfold pls_shapes. simpl.
  destruct (fields_shapes _ _ H) as [E1 [E2 E3]]. rewrite E1, E2, E3. reflexivity.
Qed.

(** * grouping *)
Lemma lp_eqb_eq : forall a b, lp_eqb a b = true <-> a = b.
Proof.
  intros [a1 a2] [b1 b2]. unfold lp_eqb. simpl. rewrite andb_true_iff, !Z.eqb_eq. split; [intros []; congruence|intros H; inversion H; auto].
Qed.
Lemma lp_eqb_refl : forall a, lp_eqb a a = true.
Proof. intros. apply lp_eqb_eq. auto. Qed.
Lemma lpkey_lp : forall a b, lpkey_eqb a b = lp_eqb a b.
Proof. reflexivity. Qed.
Lemma lp_eqb_sym : forall a b, lp_eqb a b = lp_eqb b a.
Proof. intros. destruct (lp_eqb a b) eqn:E, (lp_eqb b a) eqn:F; auto; [apply lp_eqb_eq in E|apply lp_eqb_eq in F]; subst; rewrite lp_eqb_refl in *; discriminate. Qed.

Definition keyed : Type := list ((Z * Z) * element).
Definition sel (k : Z * Z) (kes : keyed) : list element := map snd (filter (fun ke => lp_eqb (fst ke) k) kes).
Definition grp (g : groups) (kes : keyed) : groups := fold_left (fun g ke => group_add g (fst ke) (snd ke)) kes g.
Definition inkeys (k : Z * Z) (g : groups) : bool := existsb (fun ge => lp_eqb k (fst ge)) g.

Lemma group_add_in : forall g k e, inkeys k g = true ->
  group_add g k e = map (fun ge => (fst ge, if lp_eqb k (fst ge) then snd ge ++ [e] else snd ge)) g \/ True.
Proof. auto. Qed.

Lemma group_add_spec : forall g k e, NoDup (map fst g) ->
  group_add g k e =
  if inkeys k g then map (fun ge => (fst ge, if lp_eqb (fst ge) k then snd ge ++ [e] else snd ge)) g
  else g ++ [(k, [e])].
Proof.
  induction g as [|[k' es] r IH]; intros k e Hnd; simpl; auto.
  inversion Hnd; subst. rewrite lpkey_lp. destruct (lp_eqb k k') eqn:E; simpl.
  - apply lp_eqb_eq in E. subst. rewrite lp_eqb_refl. f_equal.
    rewrite <- (map_id r) at 1. apply map_ext_in. intros [k2 es2] Hin. simpl.
    destruct (lp_eqb k2 k') eqn:F; auto. apply lp_eqb_eq in F. subst. exfalso. apply H1. apply (in_map fst) in Hin. auto.
  - rewrite IH; auto. rewrite (lp_eqb_sym k' k), E. destruct (inkeys k r); auto.
Qed.

Lemma inkeys_In : forall k g, inkeys k g = true <-> In k (map fst g).
Proof.
  intros. unfold inkeys. rewrite existsb_exists. split.
  - intros [ge [Hin E]]. apply lp_eqb_eq in E. subst. apply in_map; auto.
  - intros Hin. apply in_map_iff in Hin. destruct Hin as [ge [<- Hin]]. exists ge. split; auto. apply lp_eqb_refl.
Qed.

Lemma first_seen_In : forall ks k, In k (first_seen ks) <-> In k ks.
Proof.
  induction ks as [|k0 r IH]; intros k; simpl; [tauto|].
  rewrite filter_In, IH. destruct (lp_eqb k k0) eqn:E.
  - apply lp_eqb_eq in E. subst. tauto.
  - simpl. split.
    + intros [H|[H _]]; auto.
    + intros [H|H]; [subst; rewrite lp_eqb_refl in E; discriminate|auto].
Qed.
Lemma first_seen_NoDup : forall ks, NoDup (first_seen ks).
Proof.
  induction ks as [|k0 r IH]; simpl; constructor.
  - rewrite filter_In. intros [_ E]. rewrite lp_eqb_refl in E. discriminate.
  - apply NoDup_filter; auto.
Qed.

Lemma filter_filter : forall (A : Type) (f g : A -> bool) l, filter f (filter g l) = filter (fun x => g x && f x) l.
Proof. induction l; simpl; auto. destruct (g a) eqn:G; simpl; [destruct (f a); rewrite IHl; auto|auto]. Qed.

(** closed form of the accumulation *)
Lemma grp_spec : forall kes g, NoDup (map fst g) ->
  grp g kes =
  map (fun ge => (fst ge, snd ge ++ sel (fst ge) kes)) g ++
  map (fun k => (k, sel k kes)) (filter (fun k => negb (inkeys k g)) (first_seen (map fst kes))).
Proof.
  induction kes as [|[k e] r IH]; intros g Hnd.
  - simpl. rewrite app_nil_r. rewrite <- (map_id g) at 1. apply map_ext. intros [a b]. simpl. rewrite app_nil_r. auto.
  - unfold grp. cbn [fold_left fst snd]. fold (grp (group_add g k e) r).
    rewrite group_add_spec by auto. destruct (inkeys k g) eqn:Hin.
    + (* existing key *)
      rewrite IH by (rewrite map_map; simpl; auto). rewrite !map_map. cbn [fst snd map first_seen filter].
      assert (Hk: forall k', inkeys k' (map (fun ge => (fst ge, if lp_eqb (fst ge) k then snd ge ++ [e] else snd ge)) g) = inkeys k' g).
      { intros k'. unfold inkeys. clear. induction g as [|ge g' IHg]; simpl; auto. rewrite IHg. reflexivity. }
      f_equal.
      * apply map_ext. intros [k1 es1]. cbn [fst snd]. unfold sel. cbn [filter fst]. destruct (lp_eqb k k1) eqn:E.
        -- rewrite (lp_eqb_sym k1 k), E. cbn [map snd]. rewrite <- app_assoc. auto.
        -- rewrite (lp_eqb_sym k1 k), E. auto.
      * rewrite Hin. cbn [negb]. rewrite filter_filter.
        assert (Hf: forall k', In k' (first_seen (map fst r)) ->
                  (negb (inkeys k' (map (fun ge => (fst ge, if lp_eqb (fst ge) k then snd ge ++ [e] else snd ge)) g))) =
                  (negb (lp_eqb k' k) && negb (inkeys k' g))).
        { intros k' _. rewrite Hk. destruct (lp_eqb k' k) eqn:E; auto. apply lp_eqb_eq in E. subst. rewrite Hin. auto. }
        rewrite (filter_ext_in _ _ _ Hf).
        apply map_ext_in. intros k' Hk'. apply filter_In in Hk'. destruct Hk' as [_ Hk']. apply andb_prop in Hk'. destruct Hk' as [Hne _].
        unfold sel. cbn [filter fst]. rewrite (lp_eqb_sym k k'). destruct (lp_eqb k' k); auto; discriminate.
    + (* new key *)
      assert (Hnin: ~ In k (map fst g)) by (rewrite <- inkeys_In; congruence).
      rewrite IH by (rewrite map_app; simpl; apply NoDup_app_snoc; auto).
      rewrite map_app. cbn [map fst snd first_seen filter]. rewrite Hin. cbn [negb map].
      rewrite <- app_assoc. f_equal.
      * apply map_ext_in. intros [k1 es1] Hin1. cbn [fst snd]. unfold sel. cbn [filter fst].
        destruct (lp_eqb k k1) eqn:E; auto. apply lp_eqb_eq in E. subst. exfalso. apply Hnin. apply (in_map fst) in Hin1. auto.
      * cbn [app]. f_equal.
        -- unfold sel. cbn [filter fst]. rewrite lp_eqb_refl. auto.
        -- rewrite filter_filter.
           assert (Hf: forall k', In k' (first_seen (map fst r)) ->
                     negb (inkeys k' (g ++ [(k, [e])])) = (negb (lp_eqb k' k) && negb (inkeys k' g))).
           { intros k' _. unfold inkeys. rewrite existsb_app. simpl. rewrite orb_false_r. rewrite negb_orb. apply andb_comm. }
           etransitivity; [apply f_equal; apply filter_ext_in; exact Hf|].
           apply map_ext_in. intros k' Hk'. apply filter_In in Hk'. destruct Hk' as [_ Hk']. apply andb_prop in Hk'. destruct Hk' as [Hne _].
           unfold sel. cbn [filter fst]. rewrite (lp_eqb_sym k k'). destruct (lp_eqb k' k); auto; discriminate.
Qed.

(** * the shapes of a layout *)
Definition ekey (ly : layers) (e : element) : option (Z * Z) := resolve_lp ly (e_layer e) (e_purpose e).
(** the content of an element (total; meaningful when the element's layer and purpose resolve) *)
Definition cel (ly : layers) (e : element) : celem :=
  match ekey ly e with
  | Some (n, p) => mkcelem n p (raw_net_content (e_net e)) (norm_shape (e_shape e))
  | None => mkcelem 0 0 (raw_net_content (e_net e)) (norm_shape (e_shape e))
  end.
Definition kf (ly : layers) (e : element) : Z * Z := ce_lp (cel ly e).

Lemma raw_elem_cel : forall ly e, ekey ly e <> None -> raw_elem_content ly e = Some (cel ly e) /\ ekey ly e = Some (kf ly e).
Proof.
  intros ly e H. unfold raw_elem_content, kf, cel. unfold ekey in *. destruct (resolve_lp ly (e_layer e) (e_purpose e)) as [[n p]|]; [|congruence].
  split; reflexivity.
Qed.
Lemma numbered_ekey : forall ly e, numbered_ok ly (e_layer e) (e_purpose e) -> ekey ly e <> None.
Proof. intros ly e [n [pn [H _]]]. unfold ekey. congruence. Qed.

Lemma group_elems_grp : forall ly es g, (forall e, In e es -> ekey ly e <> None) ->
  group_elems ly g es = Ok (grp g (map (fun e => (kf ly e, e)) es)).
Proof.
  induction es as [|e r IH]; intros g H; simpl; auto.
  destruct (raw_elem_cel ly e (H e (or_introl eq_refl))) as [_ Hk]. unfold ekey, resolve_lp in Hk.
  destruct (ly_get ly (e_layer e)) as [l|]; [|discriminate]. destruct (layer_pnum l (e_purpose e)) as [pn|]; [|discriminate].
  inversion Hk as [Hk']. rewrite Hk'. unfold grp in *. cbn [fold_left fst snd]. apply IH. intros; apply H; right; auto.
Qed.
Lemma grp_nil : forall kes, grp [] kes = map (fun k => (k, sel k kes)) (first_seen (map fst kes)).
Proof.
  intros. rewrite grp_spec by constructor. simpl. f_equal. apply filter_all. reflexivity.
Qed.
Lemma sel_map : forall ly k es, sel k (map (fun e => (kf ly e, e)) es) = filter (fun e => lp_eqb (kf ly e) k) es.
Proof.
  intros. unfold sel. induction es as [|e r IH]; simpl; auto. destruct (lp_eqb (kf ly e) k); simpl; rewrite IH; auto.
Qed.

Lemma Forall2_filter : forall (A B : Type) (R : A -> B -> Prop) (p : A -> bool) (q : B -> bool) l l',
  Forall2 R l l' -> (forall x y, R x y -> p x = q y) -> Forall2 R (filter p l) (filter q l').
Proof.
  induction 1; intros Hpq; simpl; auto. rewrite (Hpq _ _ H). destruct (q y); auto.
Qed.
Lemma Forall2_app' : forall (A B : Type) (R : A -> B -> Prop) a b a' b', Forall2 R a a' -> Forall2 R b b' -> Forall2 R (a ++ b) (a' ++ b').
Proof. induction 1; simpl; auto. Qed.
Lemma Forall2_by_kind : forall (A B : Type) (R : A -> B -> Prop) (sh : A -> shape) (sh' : B -> shape) l l',
  Forall2 R l l' -> (forall x y, R x y -> sh x = sh' y) -> Forall2 R (by_kind sh l) (by_kind sh' l').
Proof.
  intros. unfold by_kind. repeat apply Forall2_app'; apply Forall2_filter; auto; intros x y Hxy; rewrite (H0 _ _ Hxy); auto.
Qed.
Lemma Forall2_map_eq : forall (A B C : Type) (R : A -> B -> Prop) (f : A -> C) (g : B -> C) l l',
  Forall2 R l l' -> (forall x y, R x y -> f x = g y) -> map f l = map g l'.
Proof. induction 1; intros; simpl; auto. f_equal; auto. Qed.

Lemma pls_of_imp : forall l pss, i16_ok (pl_number l) -> i16_ok (pl_purpose l) -> Forall ps_imp pss -> pls_imp (pls_of l pss).
Proof.
  intros l pss H1 H2 H. rewrite pls_of_fields. unfold pls_imp. simpl. split; [eauto|].
  induction H as [|ps r Hp _ [IH1 IH2]]; simpl; auto. destruct ps; simpl in *; auto.
Qed.

Lemma cel_eta : forall ly e, cel ly e = mkcelem (fst (kf ly e)) (snd (kf ly e)) (raw_net_content (e_net e)) (norm_shape (e_shape e)).
Proof. intros. unfold kf, cel. destruct (ekey ly e) as [[n p]|]; reflexivity. Qed.

(** one group of the exporter: the elements of one (layer, purpose) *)
Lemma export_group_content : forall ly k els,
  (forall e, In e els -> kf ly e = k /\ shape_ok (e_shape e)) -> i16_ok (fst k) -> i16_ok (snd k) ->
  exists ls, export_group (k, els) = Ok ls /\
    pls_elems ls = Some (by_kind ce_shape (map (cel ly) els)) /\ pls_imp ls /\
    pls_lp ls = Some k /\ (els <> [] -> pls_nonempty ls).
Proof.
  intros ly k els H Hi1 Hi2.
  destruct (mapM_exists _ _ export_element
             (fun e ps => exists net, pshape_ns ps = Some (net, norm_shape (e_shape e)) /\
                                      net_content net = raw_net_content (e_net e) /\ ps_imp ps /\ kf ly e = k) els) as [pss [Hm Hq]].
  { intros e He. destruct (export_element_ok e (proj2 (H e He))) as [ps [net [E1 [E2 [E3 E4]]]]].
    exists ps. split; auto. exists net. repeat split; auto. apply H; auto. }
  unfold export_group. cbn [fst snd]. rewrite Hm. simpl. eexists. split; [reflexivity|].
  assert (Hnss : exists nss, Forall2 (fun ps ns => pshape_ns ps = Some ns) pss nss /\
                   Forall2 (fun e ns => snd ns = norm_shape (e_shape e) /\ net_content (fst ns) = raw_net_content (e_net e) /\ kf ly e = k) els nss).
  { clear - Hq. induction Hq as [|e ps els pss [net [E1 [E2 [_ E3]]]] _ [nss [F1 F2]]].
    - exists []. auto. - exists ((net, norm_shape (e_shape e)) :: nss). split; constructor; auto. }
  destruct Hnss as [nss [F1 F2]].
  assert (Himp : Forall ps_imp pss).
  { clear - Hq. induction Hq as [|e ps els pss [net [_ [_ [E _]]]] _ IH]; auto. }
  split; [|split; [|split]].
  - unfold pls_elems. rewrite (pls_of_shapes _ _ _ F1). rewrite pls_of_fields. cbn [pls_layer pl_number pl_purpose]. f_equal.
    rewrite by_kind_map. symmetry.
    eapply Forall2_map_eq.
    + apply Forall2_by_kind; [exact F2|]. intros e ns [E _]. rewrite cel_eta. simpl. auto.
    + simpl. intros e ns [E1 [E2 E3]]. rewrite cel_eta, E3, <- E1, <- E2. reflexivity.
  - apply pls_of_imp; auto.
  - rewrite pls_of_fields. unfold pls_lp. simpl. destruct k; reflexivity.
  - intros Hne. rewrite pls_of_fields. unfold pls_nonempty. simpl.
    destruct els as [|e r]; [congruence|]. inversion Hq as [|? ps ? pss' _ _]; subst.
    destruct ps; simpl; [left|right; left|right; right]; discriminate.
Qed.

Lemma Forall2_map_l : forall (A B C : Type) (R : B -> C -> Prop) (f : A -> B) l ys,
  Forall2 R (map f l) ys <-> Forall2 (fun x y => R (f x) y) l ys.
Proof.
  induction l as [|x r IH]; intros ys; simpl; split; intros H; inversion H; subst; constructor; auto; apply IH; auto.
Qed.

Lemma export_elems_content : forall ly es,
  (forall e, In e es -> numbered_ok ly (e_layer e) (e_purpose e) /\ shape_ok (e_shape e)) ->
  exists g shapes chunks,
    omapM (raw_elem_content ly) es = Some (map (cel ly) es) /\
    group_elems ly [] es = Ok g /\ mapM export_group g = Ok shapes /\
    omapM pls_elems shapes = Some chunks /\ List.concat chunks = spec_group (map (cel ly) es) /\
    Forall pls_imp shapes /\ Forall pls_nonempty shapes /\ NoDup (map pls_lp shapes).
Proof.
  intros ly es H.
  assert (Hk : forall e, In e es -> ekey ly e <> None) by (intros e He; apply numbered_ekey; apply H; auto).
  set (ks := first_seen (map (kf ly) es)).
  set (G := fun k : Z * Z => (k, filter (fun e => lp_eqb (kf ly e) k) es)).
  assert (Hg : group_elems ly [] es = Ok (map G ks)).
  { rewrite group_elems_grp by auto. rewrite grp_nil. rewrite map_map. cbn [fst]. fold ks. f_equal.
    apply map_ext. intros k. unfold G. rewrite sel_map. reflexivity. }
  destruct (mapM_exists _ _ export_group
             (fun kels ls => pls_elems ls = Some (by_kind ce_shape (map (cel ly) (snd kels))) /\ pls_imp ls /\
                             pls_lp ls = Some (fst kels) /\ pls_nonempty ls) (map G ks)) as [shapes [Hm Hq]].
  { intros [k els] Hin. apply in_map_iff in Hin. destruct Hin as [k' [E Hin]]. unfold G in E. inversion E; subst k' els; clear E.
    unfold ks in Hin. rewrite first_seen_In in Hin. apply in_map_iff in Hin. destruct Hin as [e [Ee He]].
    destruct (H e He) as [[n [pn [Hr [Hi1 Hi2]]]] _].
    assert (Hkk : k = (n, pn)).
    { destruct (raw_elem_cel ly e (Hk e He)) as [_ E2]. unfold ekey in E2. rewrite Hr in E2. inversion E2. congruence. }
    destruct (export_group_content ly k (filter (fun e0 => lp_eqb (kf ly e0) k) es)) as [ls [E1 [E2 [E3 [E4 E5]]]]].
    - intros e0 He0. apply filter_In in He0. destruct He0 as [He0 Hl]. apply lp_eqb_eq in Hl. split; [exact Hl|exact (proj2 (H e0 He0))].
    - rewrite Hkk; exact Hi1.
    - rewrite Hkk; exact Hi2.
    - exists ls. split; auto. split; auto. split; auto. split; auto. apply E5.
      intros Hnil. assert (Hin : In e (filter (fun e0 => lp_eqb (kf ly e0) k) es)).
      { apply filter_In. split; auto. apply lp_eqb_eq. auto. }
      rewrite Hnil in Hin. destruct Hin. }
  exists (map G ks), shapes, (map (fun kels => by_kind ce_shape (map (cel ly) (snd kels))) (map G ks)).
  split; [apply omapM_total; intros e He; apply raw_elem_cel; auto|]. split; auto. split; auto.
  split; [|split; [|split; [|split]]].
  - clear - Hq. induction Hq as [|x y l l' Hxy _ IH]; simpl; auto. destruct Hxy as [E _]. rewrite E, IH. reflexivity.
  - rewrite map_map. rewrite <- flat_map_concat_map. unfold spec_group. rewrite map_map.
    change (map (fun x => ce_lp (cel ly x)) es) with (map (kf ly) es). fold ks.
    apply flat_map_ext. intros k. unfold G. cbn [snd]. rewrite filter_map_comm. reflexivity.
  - clear - Hq. induction Hq; constructor; auto. apply H.
  - clear - Hq. induction Hq; constructor; auto. apply H.
  - assert (E : map pls_lp shapes = map Some ks).
    { apply Forall2_map_l in Hq. clear - Hq. induction Hq as [|k ls l l' Hxy _ IH]; simpl; auto.
      destruct Hxy as [_ [_ [E _]]]. rewrite E, IH. reflexivity. }
    rewrite E. apply FinFun.Injective_map_NoDup; [intros a b Hab; inversion Hab; auto|]. apply first_seen_NoDup.
Qed.

Lemma flat_map_ext_in' : forall (A B : Type) (f g : A -> list B) l, (forall x, In x l -> f x = g x) -> flat_map f l = flat_map g l.
Proof. induction l; simpl; intros; auto. rewrite H by auto. f_equal; auto. Qed.

(** * the documented grouping is idempotent *)
Section Idem.
Variable es : list celem.
Let chunk (k : Z * Z) : list celem := by_kind ce_shape (filter (fun e => lp_eqb (ce_lp e) k) es).

Lemma chunk_lp : forall k e, In e (chunk k) -> ce_lp e = k.
Proof. intros k e H. unfold chunk in H. apply by_kind_In in H. apply filter_In in H. apply lp_eqb_eq. tauto. Qed.

Lemma filter_chunks : forall ks k, NoDup ks ->
  filter (fun e => lp_eqb (ce_lp e) k) (flat_map chunk ks) = if existsb (lp_eqb k) ks then chunk k else [].
Proof.
  induction ks as [|k0 r IH]; intros k Hnd; simpl; auto.
  inversion Hnd; subst. rewrite filter_app, IH by auto. destruct (lp_eqb k k0) eqn:E; simpl.
  - apply lp_eqb_eq in E. subst k0.
    rewrite filter_all by (intros e He; apply lp_eqb_eq; eapply chunk_lp; eauto).
    destruct (existsb (lp_eqb k) r) eqn:F; [|apply app_nil_r].
    exfalso. apply existsb_exists in F. destruct F as [k' [Hin Hk']]. apply lp_eqb_eq in Hk'. subst. auto.
  - rewrite filter_none; auto. intros e He. apply chunk_lp in He. rewrite He. rewrite lp_eqb_sym. auto.
Qed.

Lemma first_seen_same : forall k0 l X, (forall x, In x l -> x = k0) -> l <> [] ->
  first_seen (l ++ X) = k0 :: filter (fun k' => negb (lp_eqb k' k0)) (first_seen X).
Proof.
  induction l as [|a l IH]; intros X Hall Hne; [congruence|].
  assert (a = k0) by (apply Hall; left; auto). subst a. simpl. f_equal.
  destruct l as [|b l']; [reflexivity|].
  rewrite IH; [|intros; apply Hall; right; auto|discriminate].
  simpl. rewrite lp_eqb_refl. simpl. rewrite filter_filter. apply filter_ext. intros k'. destruct (lp_eqb k' k0); auto.
Qed.

Lemma first_seen_chunks : forall ks, NoDup ks -> (forall k, In k ks -> chunk k <> []) ->
  first_seen (map ce_lp (flat_map chunk ks)) = ks.
Proof.
  induction ks as [|k0 r IH]; intros Hnd Hne; simpl; auto.
  inversion Hnd; subst. rewrite map_app.
  rewrite (first_seen_same k0).
  - rewrite IH by (auto; intros; apply Hne; right; auto). f_equal. apply filter_all.
    intros k Hk. destruct (lp_eqb k k0) eqn:E; auto. apply lp_eqb_eq in E. subst. contradiction.
  - intros x Hx. apply in_map_iff in Hx. destruct Hx as [e [<- He]]. eapply chunk_lp; eauto.
  - intros E. apply map_eq_nil in E. apply (Hne k0); auto. left; auto.
Qed.

Theorem spec_group_idem : spec_group (spec_group es) = spec_group es.
Proof.
  unfold spec_group at 2. fold chunk. set (ks := first_seen (map ce_lp es)).
  assert (Hnd : NoDup ks) by apply first_seen_NoDup.
  assert (Hne : forall k, In k ks -> chunk k <> []).
  { intros k Hk. unfold ks in Hk. rewrite first_seen_In in Hk. apply in_map_iff in Hk. destruct Hk as [e [<- He]].
    intros E. assert (Hin : In e (chunk (ce_lp e))).
    { unfold chunk. apply by_kind_In. apply filter_In. split; auto. apply lp_eqb_refl. }
    rewrite E in Hin. destruct Hin. }
  unfold spec_group. rewrite (first_seen_chunks ks Hnd Hne).
  apply flat_map_ext_in'. intros k Hk. rewrite filter_chunks by auto.
  assert (existsb (lp_eqb k) ks = true) as -> by (apply existsb_exists; exists k; split; auto; apply lp_eqb_refl).
  unfold chunk. apply by_kind_idem.
Qed.
End Idem.

(** * instances *)
Lemma i32_okb_inv : forall z, i32_okb z = true -> i32_ok z.
Proof. intros z H. unfold i32_okb in H. apply andb_prop in H. destruct H as [H1 H2]. apply Z.leb_le in H1. apply Z.ltb_lt in H2. split; auto. Qed.
Lemma export_rotation_content : forall a, angle_content a <> None ->
  exists v, export_rotation a = Ok v /\ angle_content a = Some v /\ i32_ok v.
Proof.
  intros [b|] H; simpl in *.
  - destruct (f64_int_value b) as [v|]; [|congruence]. destruct (i32_okb v) eqn:E; [|congruence].
    exists v. repeat split; auto; apply i32_okb_inv; auto.
  - exists 0. repeat split; auto; lia.
Qed.
Lemma export_instance_content : forall cells i, (i_cell i < List.length cells)%nat -> angle_content (i_angle i) <> None ->
  exists pi ci, export_instance export_rotation cells i = Ok pi /\ raw_inst_content cells i = Some ci /\
    pinst_content pi = Some ci /\ pinst_imp pi /\ i32_ok (pi_rot pi).
Proof.
  intros cells i Hc Ha. unfold export_instance, raw_inst_content.
  destruct (nth_error cells (i_cell i)) as [c|] eqn:E; [|apply nth_error_None in E; lia].
  destruct (export_rotation_content _ Ha) as [v [E1 [E2 E3]]]. rewrite E1, E2. simpl.
  eexists. eexists. split; [reflexivity|]. split; [reflexivity|]. split; [|split].
  - unfold pinst_content. simpl. rewrite pt_export. reflexivity.
  - unfold pinst_imp. simpl. split; [discriminate|eauto].
  - simpl. auto.
Qed.

(** * layouts *)
Lemma export_layout_content : forall ly cells l, layout_ok ly (List.length cells) l ->
  exists pl cl cl', export_layout export_rotation ly cells l = Ok pl /\ raw_layout_content ly cells l = Some cl /\
    playout_content pl = Some cl' /\ clayout_equiv cl cl' /\ playout_imp pl /\
    Forall (fun i => i32_ok (pi_rot i)) (ply_insts pl).
Proof.
  intros ly cells l [Hi He]. unfold export_layout.
  destruct (mapM_exists _ _ (export_instance export_rotation cells)
             (fun i pi => exists ci, raw_inst_content cells i = Some ci /\ pinst_content pi = Some ci /\ pinst_imp pi /\ i32_ok (pi_rot pi))
             (lay_insts l)) as [pis [E1 F1]].
  { intros i Hin. destruct (Hi i Hin) as [H1 H2]. destruct (export_instance_content cells i H1 H2) as [pi [ci [A [B [C [D E]]]]]]. eauto 8. }
  rewrite E1. simpl.
  destruct (export_elems_content ly (lay_elems l) He) as [g [shapes [chunks [R1 [R2 [R3 [R4 [R5 [R6 [R7 R8]]]]]]]]]].
  rewrite R2. simpl. rewrite R3. simpl.
  assert (Hcis : exists cis, omapM (raw_inst_content cells) (lay_insts l) = Some cis /\ omapM pinst_content pis = Some cis).
  { clear - F1. induction F1 as [|i pi r r' [ci [A [B _]]] _ [cis [IH1 IH2]]]; simpl; [eauto|]. rewrite A, B, IH1, IH2. eauto. }
  destruct Hcis as [cis [C1 C2]].
  eexists. eexists. eexists. split; [reflexivity|]. unfold raw_layout_content, playout_content. cbn [ply_insts ply_annots ply_shapes ply_name].
  rewrite C1, C2, R1, R4.
  assert (Han : omapM (fun t => option_map (fun p => (ptx_string t, pt_content p)) (ptx_loc t)) (map export_annotation (lay_annots l)) =
                Some (map (fun t => (t_string t, t_loc t)) (lay_annots l))).
  { rewrite omapM_map. apply omapM_total. intros t _. simpl. rewrite pt_export. reflexivity. }
  rewrite Han. split; [reflexivity|]. split; [reflexivity|]. split; [|split].
  - unfold clayout_equiv. simpl. repeat split; auto. rewrite R5. symmetry. apply spec_group_idem.
  - unfold playout_imp. simpl. split; [|split; auto].
    + clear - F1. induction F1 as [|i pi r r' [ci [_ [_ [A _]]]] _ IH]; constructor; auto.
    + apply Forall_forall. intros t Ht. apply in_map_iff in Ht. destruct Ht as [t0 [<- _]]. simpl. discriminate.
  - simpl. clear - F1. induction F1 as [|i pi r r' [ci [_ [_ [_ A]]]] _ IH]; constructor; auto.
Qed.

(** * abstracts *)
Definition nk (ly : layers) (ks : nat * list shape) : Z :=
  match key_num ly (fst ks) with Some n => n | None => 0 end.

Lemma export_abs_shapes_content : forall ly p ks, numbered_ok ly (fst ks) p -> Forall shape_ok (snd ks) ->
  exists ls, export_abs_shapes ly p ks = Ok ls /\ key_num ly (fst ks) = Some (nk ly ks) /\
    pls_entry ls = Some (nk ly ks, by_kind (fun s => s) (map norm_shape (snd ks))) /\
    lnum ls = Some (nk ly ks) /\ pls_imp ls.
Proof.
  intros ly p [k ss] [n [pn [Hr [Hi1 Hi2]]]] Hs. cbn [fst snd] in *.
  unfold resolve_lp in Hr. destruct (ly_get ly k) as [l|] eqn:El; [|discriminate].
  destruct (layer_pnum l p) as [pn'|] eqn:Ep; [|discriminate]. inversion Hr; subst n pn'; clear Hr.
  assert (Hkn : key_num ly k = Some (l_num l)) by (unfold key_num; rewrite El; reflexivity).
  assert (Hnk : nk ly (k, ss) = l_num l) by (unfold nk; cbn [fst]; rewrite Hkn; reflexivity).
  unfold export_abs_shapes, export_layerspec. cbn [fst snd]. rewrite El, Ep. simpl.
  destruct (mapM_exists _ _ export_shape (fun s ps => pshape_ns ps = Some (EmptyString, norm_shape s) /\ ps_imp ps) ss) as [pss [Em F]].
  { intros s Hin. rewrite Forall_forall in Hs. destruct (export_shape_ok s (Hs s Hin)) as [ps [A [B C]]]. eauto. }
  rewrite Em. simpl. eexists. split; [reflexivity|]. rewrite Hnk. split; auto.
  assert (F1 : Forall2 (fun ps ns => pshape_ns ps = Some ns) pss (map (fun s => (EmptyString, norm_shape s)) ss)).
  { clear - F. induction F as [|s ps r r' [A _] _ IH]; simpl; constructor; auto. }
  split; [|split].
  - unfold pls_entry. rewrite (pls_of_shapes _ _ _ F1). rewrite pls_of_fields. cbn [pls_layer pl_number]. f_equal. f_equal.
    rewrite <- (by_kind_map _ _ snd (fun s : shape => s)). rewrite map_map. reflexivity.
  - unfold lnum. rewrite pls_of_fields. reflexivity.
  - apply pls_of_imp; auto. clear - F. induction F as [|s ps r r' [_ A] _ IH]; constructor; auto.
Qed.

Lemma NoDup_map_inj_in : forall (A B : Type) (f : A -> B) l, NoDup l -> (forall x y, In x l -> In y l -> f x = f y -> x = y) -> NoDup (map f l).
Proof.
  induction l as [|x r IH]; intros Hnd Hinj; simpl; constructor.
  - inversion Hnd; subst. intros Hin. apply in_map_iff in Hin. destruct Hin as [y [Hy Hin]].
    assert (y = x) by (apply Hinj; auto; [right; auto|left; auto]). subst. auto.
  - inversion Hnd; subst. apply IH; auto. intros; apply Hinj; auto; right; auto.
Qed.

Lemma export_map_content : forall ly p m l, map_ok ly p m -> Permutation l m ->
  exists lss cm cm', mapM (export_abs_shapes ly p) l = Ok lss /\ raw_map_content ly m = Some cm /\
    omapM pls_entry lss = Some cm' /\ cmap_equiv cm cm' /\ Forall pls_imp lss /\ NoDup (map lnum lss).
Proof.
  intros ly p m l [Hnd [Hok Hinj]] Hperm.
  assert (HokL : forall ks, In ks l -> numbered_ok ly (fst ks) p /\ Forall shape_ok (snd ks)).
  { intros [k ss] Hin. apply Hok. eapply Permutation_in; eauto. }
  destruct (mapM_exists _ _ (export_abs_shapes ly p)
             (fun ks ls => key_num ly (fst ks) = Some (nk ly ks) /\
                           pls_entry ls = Some (nk ly ks, by_kind (fun s => s) (map norm_shape (snd ks))) /\
                           lnum ls = Some (nk ly ks) /\ pls_imp ls) l) as [lss [Em F]].
  { intros ks Hin. destruct (HokL ks Hin) as [A B]. destruct (export_abs_shapes_content ly p ks A B) as [ls [C D]]. eauto. }
  exists lss, (map (fun ks => (nk ly ks, map norm_shape (snd ks))) m),
         (map (fun ks => (nk ly ks, by_kind (fun s => s) (map norm_shape (snd ks)))) l).
  split; auto. split; [|split; [|split; [|split]]].
  - unfold raw_map_content. apply omapM_total. intros [k ss] Hin. destruct (Hok k ss Hin) as [[n [pn [Hr _]]] _].
    unfold nk. cbn [fst snd]. unfold key_num. unfold resolve_lp in Hr. destruct (ly_get ly k); [|discriminate]. reflexivity.
  - clear - F. induction F as [|ks ls r r' [_ [A _]] _ IH]; simpl; auto. rewrite A, IH. reflexivity.
  - unfold cmap_equiv. rewrite !map_map. cbn [fst snd].
    replace (map (fun x => (nk ly x, by_kind (fun s : shape => s) (by_kind (fun s : shape => s) (map norm_shape (snd x))))) l)
      with (map (fun x => (nk ly x, by_kind (fun s : shape => s) (map norm_shape (snd x)))) l)
      by (apply map_ext; intros; rewrite by_kind_idem; reflexivity).
    apply Permutation_map. apply Permutation_sym. auto.
  - clear - F. induction F as [|ks ls r r' [_ [_ [_ A]]] _ IH]; constructor; auto.
  - assert (E : map lnum lss = map (fun ks => Some (nk ly ks)) l).
    { clear - F. induction F as [|ks ls r r' [_ [_ [A _]]] _ IH]; simpl; auto. rewrite A, IH. reflexivity. }
    rewrite E. apply (Permutation_NoDup (l := map (fun ks => Some (nk ly ks)) m)); [apply Permutation_map; apply Permutation_sym; auto|].
    apply NoDup_map_inj_in; [eapply NoDup_map_inv; eauto|].
    intros [k ss] [k' ss'] H1 H2 Heq. inversion Heq as [Heq'].
    assert (Hk : key_num ly k = key_num ly k').
    { destruct (Hok k ss H1) as [[n [pn [Hr _]]] _]. destruct (Hok k' ss' H2) as [[n' [pn' [Hr' _]]] _].
      unfold nk in Heq'. cbn [fst] in Heq'. unfold key_num in *. unfold resolve_lp in Hr, Hr'.
      destruct (ly_get ly k); [|discriminate]. destruct (ly_get ly k'); [|discriminate]. simpl in *. congruence. }
    assert (k = k') by (eapply Hinj; eauto). subst k'.
    f_equal. clear - Hnd H1 H2. induction m as [|[a b] r IH]; [destruct H1|]. simpl in Hnd. inversion Hnd; subst.
    destruct H1 as [E1|H1], H2 as [E2|H2].
    + congruence.
    + inversion E1; subst. exfalso. apply H3. apply (in_map fst) in H2. auto.
    + inversion E2; subst. exfalso. apply H3. apply (in_map fst) in H1. auto.
    + auto.
Qed.

Definition perm_oracle (ord : oracle) : Prop := forall m, Permutation (ord m) m.

Lemma export_port_content : forall ly ord port, perm_oracle ord -> map_ok ly Pin (ap_shapes port) ->
  exists pp cp cp', export_abstract_port ly ord port = Ok pp /\ raw_port_content ly port = Some cp /\
    pport_content pp = Some cp' /\ cport_equiv cp cp' /\ Forall pls_imp (pap_shapes pp) /\ NoDup (map lnum (pap_shapes pp)).
Proof.
  intros ly ord port Hord Hok.
  destruct (export_map_content ly Pin (ap_shapes port) (ord (ap_shapes port)) Hok (Hord _)) as [lss [cm [cm' [A [B [C [D [E F]]]]]]]].
  unfold export_abstract_port. rewrite A. simpl. eexists. eexists. eexists. split; [reflexivity|].
  unfold raw_port_content, pport_content. simpl. rewrite B, C. simpl. split; [reflexivity|]. split; [reflexivity|].
  split; [split; auto|]. auto.
Qed.

Lemma export_abstract_content : forall ly ord a, perm_oracle ord -> abstract_ok ly a ->
  exists pa ca ca', export_abstract ly ord a = Ok pa /\ raw_abs_content ly a = Some ca /\ pabs_content pa = Some ca' /\
    cabs_equiv ca ca' /\ pabs_imp pa /\ pabs_distinct pa.
Proof.
  intros ly ord a Hord [Hp Hb]. unfold export_abstract.
  destruct (mapM_exists _ _ (export_abstract_port ly ord)
             (fun port pp => exists cp cp', raw_port_content ly port = Some cp /\ pport_content pp = Some cp' /\ cport_equiv cp cp' /\
                                            Forall pls_imp (pap_shapes pp) /\ NoDup (map lnum (pap_shapes pp))) (ab_ports a)) as [pps [E1 F1]].
  { intros port Hin. destruct (export_port_content ly ord port Hord (Hp port Hin)) as [pp [cp [cp' [A B]]]]. eauto 8. }
  rewrite E1. simpl.
  destruct (export_map_content ly Obstruction (ab_blockages a) (ord (ab_blockages a)) Hb (Hord _)) as [lss [cm [cm' [A [B [C [D [E F]]]]]]]].
  rewrite A. simpl.
  assert (Hcps : exists cps cps', omapM (raw_port_content ly) (ab_ports a) = Some cps /\ omapM pport_content pps = Some cps' /\ Forall2 cport_equiv cps cps').
  { clear - F1. induction F1 as [|port pp r r' [cp [cp' [X [Y [Z _]]]]] _ [cps [cps' [I1 [I2 I3]]]]]; simpl.
    - exists [], []. auto. - rewrite X, Y, I1, I2. exists (cp :: cps), (cp' :: cps'). auto. }
  destruct Hcps as [cps [cps' [G1 [G2 G3]]]].
  eexists. eexists. eexists. split; [reflexivity|]. unfold raw_abs_content, pabs_content. simpl. rewrite G1, G2, B, C.
  split; [reflexivity|]. split; [reflexivity|]. split; [|split].
  - unfold cabs_equiv. simpl. rewrite map_pt_export. auto.
  - unfold pabs_imp. simpl. split; [discriminate|]. split; auto.
    clear - F1. induction F1 as [|port pp r r' [cp [cp' [_ [_ [_ [X _]]]]]] _ IH]; constructor; auto.
  - unfold pabs_distinct. simpl. split; auto. intros p Hin.
    clear - F1 Hin. induction F1 as [|port pp r r' [cp [cp' [_ [_ [_ [_ X]]]]]] _ IH]; [destruct Hin|]. destruct Hin as [<-|Hin]; auto.
Qed.

(** * cells *)
Definition cell_ok (ly : layers) (n : nat) (c : cell) : Prop :=
  (forall l, c_layout c = Some l -> layout_ok ly n l) /\ (forall a, c_abs c = Some a -> abstract_ok ly a).

Lemma export_cell_content : forall ly ord cells c, perm_oracle ord -> cell_ok ly (List.length cells) c ->
  exists pc cc cc', export_cell export_rotation ly ord cells c = Ok pc /\ raw_cell_content ly cells c = Some cc /\
    pcell_content pc = Some cc' /\ ccell_equiv cc cc' /\ pcell_imp pc /\
    (forall a, pc_abs pc = Some a -> pabs_distinct a) /\
    (forall l i, pc_layout pc = Some l -> In i (ply_insts l) -> i32_ok (pi_rot i)).
Proof.
  intros ly ord cells c Hord [Hl Ha]. unfold export_cell, raw_cell_content, pcell_content.
  assert (L : exists pl cl cl', match c_layout c with
                | Some l => obind (export_layout export_rotation ly cells l) (fun pl => Ok (Some pl))
                | None => Ok None end = Ok pl /\
              oopt (raw_layout_content ly cells) (c_layout c) = Some cl /\ oopt playout_content pl = Some cl' /\
              opt_rel clayout_equiv cl cl' /\ (forall l, pl = Some l -> playout_imp l /\ Forall (fun i => i32_ok (pi_rot i)) (ply_insts l))).
  { destruct (c_layout c) as [l|].
    - destruct (export_layout_content ly cells l (Hl l eq_refl)) as [pl [cl [cl' [A [B [C [D [E F]]]]]]]].
      rewrite A. simpl. rewrite B. exists (Some pl), (Some cl), (Some cl'). simpl. rewrite C. simpl.
      split; [reflexivity|]. split; [reflexivity|]. split; [reflexivity|]. split; [exact D|]. intros l0 Hl0. inversion Hl0; subst. auto.
    - exists None, None, None. simpl. split; [reflexivity|]. split; [reflexivity|]. split; [reflexivity|]. split; [exact I|]. intros l0 Hl0. discriminate. }
  destruct L as [pl [cl [cl' [L1 [L2 [L3 [L4 L5]]]]]]]. rewrite L1. simpl.
  assert (A : exists pa ca ca', match c_abs c with
                | Some a => obind (export_abstract ly ord a) (fun pa => Ok (Some pa))
                | None => Ok None end = Ok pa /\
              oopt (raw_abs_content ly) (c_abs c) = Some ca /\ oopt pabs_content pa = Some ca' /\
              opt_rel cabs_equiv ca ca' /\ (forall a, pa = Some a -> pabs_imp a /\ pabs_distinct a)).
  { destruct (c_abs c) as [a|].
    - destruct (export_abstract_content ly ord a Hord (Ha a eq_refl)) as [pa [ca [ca' [A [B [C [D [E F]]]]]]]].
      rewrite A. simpl. rewrite B. exists (Some pa), (Some ca), (Some ca'). simpl. rewrite C. simpl.
      split; [reflexivity|]. split; [reflexivity|]. split; [reflexivity|]. split; [exact D|]. intros l0 Hl0. inversion Hl0; subst. auto.
    - exists None, None, None. simpl. split; [reflexivity|]. split; [reflexivity|]. split; [reflexivity|]. split; [exact I|]. intros l0 Hl0. discriminate. }
  destruct A as [pa [ca [ca' [A1 [A2 [A3 [A4 A5]]]]]]]. rewrite A1. simpl.
  eexists. eexists. eexists. split; [reflexivity|]. rewrite L2, A2. cbn [pc_layout pc_abs pc_name]. rewrite L3, A3.
  split; [reflexivity|]. split; [reflexivity|]. split; [|split; [|split]].
  - unfold ccell_equiv. simpl. auto.
  - unfold pcell_imp. simpl. split; intros x Hx; [apply L5|apply A5]; auto.
  - simpl. intros a Hx. apply A5; auto.
  - simpl. intros l i Hx Hi. destruct (L5 l Hx) as [_ F]. rewrite Forall_forall in F. auto.
Qed.

(** * libraries *)
Lemma nth_error_seq_Forall2 : forall (A : Type) (pre l : list A),
  Forall2 (fun i c => nth_error (pre ++ l) i = Some c) (seq (List.length pre) (List.length l)) l.
Proof.
  intros A pre l. revert pre. induction l as [|x r IH]; intros pre; simpl; constructor.
  - rewrite nth_error_app2 by lia. rewrite Nat.sub_diag. reflexivity.
  - specialize (IH (pre ++ [x])). rewrite <- app_assoc in IH. simpl in IH. rewrite app_length in IH. simpl in IH.
    replace (List.length pre + 1)%nat with (S (List.length pre)) in IH by lia. exact IH.
Qed.

Lemma omapM_of_Forall2_idx : forall (A B C : Type) (f : A -> option B) (R : B -> C -> Prop) (Q : nat -> C -> Prop)
  (lk : nat -> option A) (idx : list nat) (l : list A),
  Forall2 (fun i c => lk i = Some c) idx l ->
  (forall i c cc', lk i = Some c -> Q i cc' -> exists cc, f c = Some cc /\ R cc cc') ->
  forall cs, Forall2 Q idx cs -> exists ccs, omapM f l = Some ccs /\ Forall2 R ccs cs.
Proof.
  intros A B C f R Q lk idx l Hn HQ. induction Hn as [|i c idx r Hi _ IH]; intros cs Hcs.
  - inversion Hcs; subst. exists []. auto.
  - inversion Hcs as [|? cc' ? cs0 HR Hrest]; subst. destruct (IH _ Hrest) as [ccs [I1 I2]].
    destruct (HQ i c cc' Hi HR) as [cc [E1 E2]]. exists (cc :: ccs). simpl. rewrite E1, I1. auto.
Qed.

Theorem export_content : forall ord L, perm_oracle ord -> proto_exportable L ->
  exists P C C', to_proto_with export_rotation ord L = Ok P /\ raw_content L = Some C /\ proto_content P = Some C' /\
    content_equiv_grouped C C' /\ Forall pcell_imp (pb_cells P) /\ abs_layers_distinct P /\ proto_typed P /\
    units_content (pb_units P) <> None.
Proof.
  intros ord L Hord [Hu [Hnames [Hac Hcells]]].
  set (cells := lib_cells L) in *. set (ly := lib_layers L) in *. set (n := List.length cells).
  assert (Hclosed : closed cells).
  { intros i d Hd. unfold deps_of in Hd. destruct (nth_error cells i) as [c|] eqn:E; [|destruct Hd].
    unfold cell_deps in Hd. destruct (c_layout c) as [l|] eqn:El; [|destruct Hd].
    apply in_map_iff in Hd. destruct Hd as [inst [<- Hin]].
    destruct (Hcells c (nth_error_In _ _ E)) as [Hl _]. destruct (Hl l El) as [Hi _]. apply Hi; auto. }
  destruct (dep_order_total cells Hclosed Hac) as [order Eo].
  pose proof (dep_order_perm cells Hclosed order Eo) as Hperm. fold n in Hperm.
  assert (Eu : exists u, export_units (lib_units L) = Ok u /\ units_content u = Some (lib_units L)).
  { destruct (lib_units L); simpl; eauto; congruence. }
  destruct Eu as [u [Eu Hcu]].
  set (Ri := fun (i : nat) (cc' : ccell) => exists c pc, nth_error cells i = Some c /\
               export_cell export_rotation ly ord cells c = Ok pc /\ pcell_content pc = Some cc' /\
               (exists cc, raw_cell_content ly cells c = Some cc /\ ccell_equiv cc cc') /\ pcell_imp pc /\
               (forall a, pc_abs pc = Some a -> pabs_distinct a) /\
               (forall l i, pc_layout pc = Some l -> In i (ply_insts l) -> i32_ok (pi_rot i))).
  assert (HRi : forall i, In i (seq 0 n) -> exists cc', Ri i cc').
  { intros i Hi. apply in_seq in Hi. destruct (nth_error cells i) as [c|] eqn:E; [|apply nth_error_None in E; unfold n in Hi; lia].
    destruct (export_cell_content ly ord cells c Hord) as [pc [cc [cc' [A [B [C [D [F [G H]]]]]]]]].
    { destruct (Hcells c (nth_error_In _ _ E)). split; auto. }
    exists cc'. exists c, pc. split; [exact E|]. split; [exact A|]. split; [exact C|]. split; [eauto|]. split; [exact F|]. split; [exact G|exact H]. }
  destruct (Forall2_exists _ _ Ri (seq 0 n) HRi) as [cs Hcs].
  destruct (Forall2_perm _ _ Ri _ _ Hperm cs Hcs) as [cs' [Hpcs Hcs']].
  (* the export of the cells, in dependency order *)
  destruct (mapM_exists _ _ (fun i => match nth_error cells i with
                                      | Some c => export_cell export_rotation ly ord cells c
                                      | None => Err "model: dangling cell index"%string end)
             (fun i pc => exists cc', Ri i cc' /\ pcell_content pc = Some cc' /\ pcell_imp pc /\
                          (forall a, pc_abs pc = Some a -> pabs_distinct a) /\
                          (forall l i, pc_layout pc = Some l -> In i (ply_insts l) -> i32_ok (pi_rot i))) order) as [pcs [Em Fm]].
  { intros i Hi. assert (Hi' : In i (seq 0 n)) by (eapply Permutation_in; [apply Permutation_sym; eauto|auto]).
    destruct (HRi i Hi') as [cc' HR]. pose proof HR as HR'. destruct HR as [c [pc [A [B [C [D [E [F G]]]]]]]]. rewrite A. exists pc. split; auto.
    exists cc'. split; [exact HR'|]. split; [exact C|]. split; [exact E|]. split; [exact F|exact G]. }
  unfold to_proto_with. fold cells ly. rewrite Eu. simpl. rewrite Eo. simpl. rewrite Em. simpl.
  (* contents *)
  assert (Hccs : exists ccs, omapM (raw_cell_content ly cells) cells = Some ccs /\ Forall2 ccell_equiv ccs cs).
  { pose proof (nth_error_seq_Forall2 _ [] cells) as Hn. simpl in Hn. fold n in Hn.
    apply (omapM_of_Forall2_idx _ _ _ (raw_cell_content ly cells) ccell_equiv Ri (nth_error cells) (seq 0 n) cells Hn); auto.
    intros i c cc' Hi [c0 [pc [A [_ [_ [[cc [B C]] _]]]]]]. rewrite Hi in A. inversion A; subst c0. eauto. }
  destruct Hccs as [ccs [Hraw Hequiv]].
  assert (Hpc : omapM pcell_content pcs = Some cs').
  { clear - Fm Hcs'. revert cs' Hcs'. induction Fm as [|i pc r r' [cc' [HR [Hc _]]] _ IH]; intros cs' Hcs'.
    - inversion Hcs'; subst. reflexivity.
    - inversion Hcs' as [|? cc2 ? cs0 HR2 Hrest]; subst. simpl. rewrite Hc, (IH _ Hrest).
      destruct HR as [c [pc1 [A1 [B1 [C1 _]]]]]. destruct HR2 as [c2 [pc2 [A2 [B2 [C2 _]]]]].
      rewrite A1 in A2. inversion A2; subst c2. rewrite B1 in B2. inversion B2; subst pc2. rewrite C1 in C2. inversion C2; subst. reflexivity. }
  eexists. exists (mkcontent (lib_name L) (lib_units L) ccs), (mkcontent (lib_name L) (lib_units L) cs').
  split; [reflexivity|]. split; [|split; [|split; [|split; [|split; [|split]]]]].
  - unfold raw_content. fold cells ly. rewrite Hraw. reflexivity.
  - unfold proto_content. simpl. rewrite Hcu, Hpc. reflexivity.
  - unfold content_equiv_grouped. simpl. split; auto. split; auto. exists cs. split; auto.
  - simpl. clear - Fm. induction Fm as [|i pc r r' [cc' [_ [_ [X _]]]] _ IH]; constructor; auto.
  - unfold abs_layers_distinct. simpl. intros c a Hin Ha. clear - Fm Hin Ha.
    induction Fm as [|i pc r r' [cc' [_ [_ [_ [X _]]]]] _ IH]; [destruct Hin|]. destruct Hin as [<-|Hin]; auto.
  - unfold proto_typed. simpl. intros c l i Hin Hl Hi. clear - Fm Hin Hl Hi.
    induction Fm as [|j pc r r' [cc' [_ [_ [_ [_ X]]]]] _ IH]; [destruct Hin|]. destruct Hin as [<-|Hin]; eauto.
  - simpl. congruence.
Qed.

(** * raw -> proto -> raw *)
Theorem raw_proto_raw : forall ord L ly0, perm_oracle ord -> proto_exportable L -> layers_wf ly0 ->
  exists P L', to_proto_with export_rotation ord L = Ok P /\ from_proto ly0 P = Ok L' /\ raw_equiv_grouped L L'.
Proof.
  intros ord L ly0 Hord Hex Hwf.
  destruct (export_content ord L Hord Hex) as [P [C [C' [E1 [E2 [E3 [E4 [E5 [E6 [E7 E8]]]]]]]]]].
  pose proof (export_deps_first _ _ _ _ E1) as Hd.
  destruct (import_total ly0 P E8 Hd E5) as [L' EL].
  destruct (import_content ly0 P L' Hwf E6 E7 EL) as [Hc _].
  exists P, L'. split; auto. split; auto. exists C, C'. split; auto. split; [congruence|auto].
Qed.
