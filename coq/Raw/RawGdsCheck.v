(** Executable checks used by the correspondence run of C06 (tools/props/c06.py).
    [c06_check cfg probes ly0 g impl] = 10 * code + agree, where
      code 0 = the implementation's output equals the model's and the property holds on it;
      code 1 = it differs from the model's but the property (evaluated on the implementation's
               output by the specification of Raw/RawGdsSpec.v) still holds or is silent;
      code 2 = the property fails on the implementation's output;
      agree  = 1 when the model predicts the implementation's outcome (also for code 2: the
               model of the code as found predicts the panics and the misplaced arrays), else 0.
    No proofs here.

    The property on the implementation's output ([prop_okb]).  `from_gds` panicked: fails (a
    panic is neither an error nor a library).  It returned an error: holds (the statement allows
    an error for every input).  It returned a library: fails when the GDSII library is
    malformed ([malformedb]); is not judged when the specification is silent ([silentb]);
    otherwise the library must have exactly one cell per structure, and for every cell
    (a) its own shapes are the structure's own shapes (multiset of normal forms), (b) its
    instances are the placements of the structure's SREFs and AREFs, none dropped, (c) nets and
    annotations follow the labels, and (d) when the harness flattened the cell, the flattened
    elements are exactly [gds_flatten] (multiset of normal forms).  (a)+(b) for all cells is the
    library-level form of (d); it is what is checked for arrays too large to flatten and print. *)
From Coq Require Import ZArith NArith List String Ascii Bool.
From L21 Require Import Base.F64 Base.Hex Raw.RawData Raw.RawGds Raw.RawFlatten.
From L21 Require Gds.GdsData Raw.RawGdsSpec Geom.Transform Geom.TransformSpec.
Import ListNotations.
Local Open Scope list_scope.
Local Open Scope Z_scope.

Module S := Raw.RawGdsSpec.
Module TS := Geom.TransformSpec.

(** * generic deciders *)
Fixpoint list_eqb {A : Type} (eqb : A -> A -> bool) (l l' : list A) : bool :=
  match l, l' with
  | [], [] => true
  | x :: r, y :: r' => eqb x y && list_eqb eqb r r'
  | _, _ => false
  end.
Definition option_eqb {A : Type} (eqb : A -> A -> bool) (x y : option A) : bool :=
  match x, y with
  | None, None => true
  | Some a, Some b => eqb a b
  | _, _ => false
  end.
Fixpoint remove_first {A : Type} (eqv : A -> A -> bool) (x : A) (l : list A) : option (list A) :=
  match l with
  | [] => None
  | y :: r => if eqv x y then Some r
              else match remove_first eqv x r with Some r' => Some (y :: r') | None => None end
  end.
Fixpoint perm_eqb {A : Type} (eqv : A -> A -> bool) (l l' : list A) : bool :=
  match l with
  | [] => match l' with [] => true | _ => false end
  | x :: r => match remove_first eqv x l' with
              | Some r' => perm_eqb eqv r r'
              | None => false
              end
  end.
(** equal as lists, or (short lists only) as multisets *)
Definition multiset_eqb {A : Type} (eqv : A -> A -> bool) (l l' : list A) : bool :=
  list_eqb eqv l l' || ((Nat.leb (List.length l) 3000) && perm_eqb eqv l l').

(** * equality on raw data (model against implementation) *)
Definition point_eqb (a b : point) : bool := (px a =? px b) && (py a =? py b).
Definition shape_eqb (a b : shape) : bool :=
  match a, b with
  | Rect p q, Rect p' q' => point_eqb p p' && point_eqb q q'
  | Polygon l, Polygon l' => list_eqb point_eqb l l'
  | Path l w, Path l' w' => list_eqb point_eqb l l' && (w =? w')
  | _, _ => false
  end.
Definition units_eqb (a b : units) : bool :=
  match a, b with
  | Micro, Micro | Nano, Nano | Angstrom, Angstrom | Pico, Pico => true
  | _, _ => false
  end.
Definition elem_eqb (a b : element) : bool :=
  option_eqb String.eqb (e_net a) (e_net b) && Nat.eqb (e_layer a) (e_layer b) &&
  purpose_eqb (e_purpose a) (e_purpose b) && shape_eqb (e_shape a) (e_shape b).
Definition inst_eqb (a b : instance) : bool :=
  String.eqb (i_name a) (i_name b) && Nat.eqb (i_cell a) (i_cell b) && point_eqb (i_loc a) (i_loc b) &&
  Bool.eqb (i_reflect a) (i_reflect b) && option_eqb Z.eqb (i_angle a) (i_angle b).
Definition text_eqb (a b : textelem) : bool :=
  String.eqb (t_string a) (t_string b) && point_eqb (t_loc a) (t_loc b).
Definition layout_eqb (a b : layout) : bool :=
  String.eqb (lay_name a) (lay_name b) && list_eqb inst_eqb (lay_insts a) (lay_insts b) &&
  list_eqb elem_eqb (lay_elems a) (lay_elems b) && list_eqb text_eqb (lay_annots a) (lay_annots b).
(** the importer never creates abstracts *)
Definition cell_eqb (a b : cell) : bool :=
  String.eqb (c_name a) (c_name b) &&
  match c_abs a, c_abs b with None, None => true | _, _ => false end &&
  option_eqb layout_eqb (c_layout a) (c_layout b).

(** A layer table as the harness observes it: per slot the number, the name, and for every probed
    purpose number n with `purpose(n) = Some p` the pair (n, p).  The implementation's
    [lib_layers] is a reconstruction from these observations, so tables are compared through
    [observe_layers]. *)
Definition layer_obs : Type := (Z * option string * list (Z * purpose))%type.
Definition observe_layers (probes : list Z) (ly : layers) : list layer_obs :=
  map (fun l => (l_num l, l_name l,
                 flat_map (fun n => match layer_purpose l n with Some p => [(n, p)] | None => [] end) probes)) ly.
Definition layer_obs_eqb (a b : layer_obs) : bool :=
  let '(n, nm, ps) := a in
  let '(n', nm', ps') := b in
  (n =? n') && option_eqb String.eqb nm nm' &&
  list_eqb (fun x y => (fst x =? fst y) && purpose_eqb (snd x) (snd y)) ps ps'.
Definition library_eqb (probes : list Z) (a b : library) : bool :=
  String.eqb (lib_name a) (lib_name b) && units_eqb (lib_units a) (lib_units b) &&
  list_eqb layer_obs_eqb (observe_layers probes (lib_layers a)) (observe_layers probes (lib_layers b)) &&
  list_eqb cell_eqb (lib_cells a) (lib_cells b).

(** * The implementation's output *)
Inductive flat_out : Type :=
| FOk (es : list element)
| FErr
| FPanic
| FNotRun.                 (* the case asked for no flattening (array too large to print) *)
Inductive impl_out : Type :=
| MLib (L : library) (flats : list flat_out)     (* one entry per cell *)
| MErr
| MPanic.

(** Long instance lists are passed in pieces: single instances and lattices (the Python side checks
    that the expansion is exactly the list it received). *)
Inductive iseg : Type :=
| ISingle (i : instance)
| ILattice (cname : string) (cell : nat) (x0 y0 cdx cdy rdx rdy cols rows : Z) (refl : bool) (angle : option Z).
Definition expand_iseg (s : iseg) : list instance :=
  match s with
  | ISingle i => [i]
  | ILattice cname cell x0 y0 cdx cdy rdx rdy cols rows refl angle =>
    flat_map (fun ix => map (fun iy => mkinst (array_inst_name cname ix iy) cell
                                             (mkpt (x0 + ix * cdx + iy * rdx) (y0 + ix * cdy + iy * rdy)) refl angle)
                            (zrange rows)) (zrange cols)
  end.
Definition expand_insts (l : list iseg) : list instance := flat_map expand_iseg l.

(** * The property on the implementation's output *)
Definition bytes_eq_string (b : Gds.GdsData.bytes) (s : string) : bool := zlist_eqb b (S.bytes_of_string s).

(** the placements a structure states: (name of the target, placement), in element order *)
Definition struct_placements (s : Gds.GdsData.gstruct) : S.sres (list (Gds.GdsData.bytes * TS.splacement)) :=
  S.sconcat (map (fun e =>
                    match e with
                    | Gds.GdsData.ESref r => S.smap (map (fun pl => (Gds.GdsData.sr_name r, pl))) (S.sref_placements r)
                    | Gds.GdsData.EAref a => S.smap (map (fun pl => (Gds.GdsData.ar_name a, pl))) (S.aref_placements a)
                    | _ => S.SOk []
                    end) (Gds.GdsData.s_elems s)).

(** what an instance says: name of its cell and placement; [None]: not a right angle, or no such cell *)
Definition inst_says (cells : list cell) (i : instance) : option (string * TS.splacement) :=
  match nth_error cells (i_cell i) with
  | None => None
  | Some c =>
    match i_angle i with
    | None => Some (c_name c, (px (i_loc i), py (i_loc i), i_reflect i, O))
    | Some a => match f64_int_value a with
                | Some d => match TS.quarters_of d with
                            | Some q => Some (c_name c, (px (i_loc i), py (i_loc i), i_reflect i, q))
                            | None => None
                            end
                | None => None
                end
    end
  end.
Definition placement_eqb (a : string * TS.splacement) (b : Gds.GdsData.bytes * TS.splacement) : bool :=
  let '(x, y, r, q) := snd a in
  let '(x', y', r', q') := snd b in
  bytes_eq_string (fst b) (fst a) && (x =? x') && (y =? y') && Bool.eqb r r' && Nat.eqb q q'.
(** same length and pointwise equal, or (short lists) equal as multisets *)
Fixpoint list_rel {A B : Type} (r : A -> B -> bool) (l : list A) (l' : list B) : bool :=
  match l, l' with
  | [], [] => true
  | x :: t, y :: t' => r x y && list_rel r t t'
  | _, _ => false
  end.
Fixpoint remove_first_rel {A B : Type} (r : A -> B -> bool) (x : A) (l : list B) : option (list B) :=
  match l with
  | [] => None
  | y :: t => if r x y then Some t
              else match remove_first_rel r x t with Some t' => Some (y :: t') | None => None end
  end.
Fixpoint perm_rel {A B : Type} (r : A -> B -> bool) (l : list A) (l' : list B) : bool :=
  match l with
  | [] => match l' with [] => true | _ => false end
  | x :: t => match remove_first_rel r x l' with Some t' => perm_rel r t t' | None => false end
  end.
Definition insts_okb (cells : list cell) (insts : list instance) (s : Gds.GdsData.gstruct) : bool :=
  match struct_placements s, S.omap_all (inst_says cells) insts with
  | S.SOk pls, Some says =>
    list_rel placement_eqb says pls || (Nat.leb (List.length says) 3000 && perm_rel placement_eqb says pls)
  | _, _ => false
  end.

(** own shapes, nets and annotations of one cell against its structure *)
Definition annot_pair (t : textelem) : string * TS.pt := (t_string t, (px (t_loc t), py (t_loc t))).
Definition cell_okb (ascii : bool) (ly : layers) (cells : list cell) (l : layout) (s : Gds.GdsData.gstruct) : bool :=
  match S.own_shapes s with
  | S.SOk shapes =>
    S.flat_equivb ly (lay_elems l) shapes
    && insts_okb cells (lay_insts l) s
    && (negb ascii
        || ((* nets are judged shape by shape: the elements must stand in the order of the shapes *)
            match S.omap_all (S.norm_raw_elem ly) (lay_elems l) with
            | Some ns => list_eqb S.nshape_eqb ns (map S.norm_fshape shapes)
            | None => false
            end
            && S.nets_okb (S.own_texts s) shapes (map e_net (lay_elems l))
            && S.annots_okb shapes (S.own_texts s) (map annot_pair (lay_annots l))))
  | _ => false
  end.

Definition flat_okb (ly : layers) (g : Gds.GdsData.library) (s : Gds.GdsData.gstruct) (f : flat_out) : bool :=
  match f with
  | FOk es => match S.gds_flatten g (Gds.GdsData.s_name s) with
              | S.SOk spec => S.flat_equivb ly es spec
              | _ => false
              end
  | FNotRun => true
  | FErr | FPanic => false
  end.

(** one cell per structure, each matching the structure of its name *)
Fixpoint cells_okb (ascii : bool) (g : Gds.GdsData.library) (ly : layers) (all : list cell)
         (cells : list cell) (flats : list flat_out) : bool :=
  match cells, flats with
  | [], [] => true
  | c :: r, f :: rf =>
    match c_layout c, find (fun s => bytes_eq_string (Gds.GdsData.s_name s) (c_name c)) (Gds.GdsData.l_structs g) with
    | Some l, Some s => cell_okb ascii ly all l s && flat_okb ly g s f && cells_okb ascii g ly all r rf
    | _, _ => false
    end
  | _, _ => false
  end.
Definition lib_okb (g : Gds.GdsData.library) (L : library) (flats : list flat_out) : bool :=
  Nat.eqb (List.length (lib_cells L)) (List.length (Gds.GdsData.l_structs g))
  && forallb (fun s => Nat.eqb (List.length (filter (fun c => bytes_eq_string (Gds.GdsData.s_name s) (c_name c)) (lib_cells L))) 1)
             (Gds.GdsData.l_structs g)
  && cells_okb (S.labels_ascii g) g (lib_layers L) (lib_cells L) (lib_cells L) flats.

(** 0 = holds, 1 = not judged (specification silent), 2 = fails *)
Definition prop_verdict (g : Gds.GdsData.library) (m : impl_out) : Z :=
  match m with
  | MPanic => 2
  | MErr => 0
  | MLib L flats =>
    if S.malformedb g then 2
    else if S.silentb g then 1
    else if lib_okb g L flats then 0 else 2
  end.

(** * Model against implementation *)
Definition flat_agree (Lm : library) (probes : list Z) (i : nat) (f : flat_out) : bool :=
  match f with
  | FNotRun => true
  | FOk es => match raw_flatten Lm i with
              | Geom.Transform.Ok ms => list_eqb elem_eqb ms es
              | Geom.Transform.OutOfModel => true           (* the exact model does not say *)
              | Geom.Transform.Panic => false
              end
  | FPanic => match raw_flatten Lm i with Geom.Transform.Ok _ => false | _ => true end
  | FErr => false                                           (* flatten of an imported library has no error path *)
  end.
Fixpoint flats_agree (Lm : library) (probes : list Z) (i : nat) (fs : list flat_out) : bool :=
  match fs with
  | [] => true
  | f :: r => flat_agree Lm probes i f && flats_agree Lm probes (S i) r
  end.
Definition model_agrees (c : cfg) (probes : list Z) (ly0 : layers) (g : Gds.GdsData.library) (m : impl_out) : bool :=
  match import_lib c ly0 g, m with
  | INoModel, _ => true
  | IOk Lm, MLib L flats => library_eqb probes Lm L && flats_agree Lm probes O flats
  | IErr _, MErr => true
  | IPanic, MPanic => true
  | _, _ => false
  end.

Definition c06_check (c : cfg) (probes : list Z) (ly0 : layers) (g : Gds.GdsData.library) (m : impl_out) : Z :=
  let agree := if model_agrees c probes ly0 g m then 1 else 0 in
  let v := prop_verdict g m in
  10 * (if v =? 2 then 2 else if agree =? 1 then 0 else 1) + agree.

(** the specification's view of a library, for the run's statistics:
    0 = well-formed and judged, 1 = silent, 2 = malformed *)
Definition c06_class (g : Gds.GdsData.library) : Z :=
  if S.malformedb g then 2 else if S.silentb g then 1 else 0.

(** * Short constructors for the case files (fewer nodes to elaborate; nothing else) *)
Module W.
  Module G := Gds.GdsData.
  Fixpoint gpts (l : list Z) : list G.point :=
    match l with x :: y :: r => G.mkPt x y :: gpts r | _ => [] end.
  Definition zdt : G.datetimes := G.mkDTs (G.mkDT 0 0 0 0 0 0) (G.mkDT 0 0 0 0 0 0).
  Definition gB (l d : Z) (xy : list Z) : G.element := G.EBoundary (G.mkBoundary l d (gpts xy) None None []).
  Definition gX (l d : Z) (xy : list Z) : G.element := G.EBox (G.mkBox l d (gpts xy) None None []).
  Definition gP (l d : Z) (xy : list Z) (w pt : option Z) : G.element :=
    G.EPath (G.mkPath l d (gpts xy) w pt None None None None []).
  Definition gT (s : G.bytes) (l tt x y : Z) : G.element :=
    G.EText (G.mkText s l tt (G.mkPt x y) None None None None None None []).
  Definition gN (l nt : Z) (xy : list Z) : G.element := G.ENode (G.mkNode l nt (gpts xy) None None []).
  Definition gS (nm : G.bytes) (x y : Z) (st : option G.strans) : G.element :=
    G.ESref (G.mkSref nm (G.mkPt x y) st None None []).
  Definition gA (nm : G.bytes) (xy : list Z) (c r : Z) (st : option G.strans) : G.element :=
    G.EAref (G.mkAref nm (gpts xy) c r st None None []).
  Definition gSt (nm : G.bytes) (es : list G.element) : G.gstruct := G.mkStruct nm zdt es.
  Definition gL (nm : G.bytes) (u0 u1 : Z) (structs : list G.gstruct) : G.library := G.mkLib nm 3 zdt (u0, u1) structs.
  Definition tr (r am aa : bool) (mag angle : option Z) : option G.strans := Some (G.mkStrans r am aa mag angle).

  Fixpoint rpts (l : list Z) : list point :=
    match l with x :: y :: r => mkpt x y :: rpts r | _ => [] end.
  Definition rR (a b c d : Z) : shape := Rect (mkpt a b) (mkpt c d).
  Definition rG (l : list Z) : shape := Polygon (rpts l).
  Definition rP (w : Z) (l : list Z) : shape := Path (rpts l) w.
  Definition rE (net : option string) (ly pn : Z) (s : shape) : element := mkelem net (Z.to_nat ly) (Other pn) s.
  Definition rEp (net : option string) (ly : Z) (p : purpose) (s : shape) : element := mkelem net (Z.to_nat ly) p s.
  Definition rI (nm : string) (cell x y : Z) (r : bool) (a : option Z) : instance :=
    mkinst nm (Z.to_nat cell) (mkpt x y) r a.
  Definition rT (s : string) (x y : Z) : textelem := mktext s (mkpt x y).
  Definition rLat (cname : string) (cell x0 y0 cdx cdy rdx rdy cols rows : Z) (refl : bool) (angle : option Z) : iseg :=
    ILattice cname (Z.to_nat cell) x0 y0 cdx cdy rdx rdy cols rows refl angle.
End W.
