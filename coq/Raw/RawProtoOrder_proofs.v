(** Lemmas for property C14, part 3: the order of the exported cells.
    The exporter's `DepOrder` is the model of property C17 ([DepOrderFixed.order_checked]); the
    facts about it used here are the C17 theorems [order_checked_sound] / [order_checked_total]
    (Order/DepOrderFixed_proofs.v), transported from [N] to cell indices.  Then: an exported
    message lists every cell after the cells it instantiates ([export_deps_first]), and the
    importer never fails on an undefined reference when given such a message
    ([import_no_undefined]). *)
From Coq Require Import ZArith NArith List String Bool Lia Permutation Arith FinFun.
From L21 Require Import Base.F64 Base.Outcome Raw.RawData Raw.RawProto Raw.RawProtoSpec Raw.RawProtoBase_proofs.
From L21 Require Order.DepOrder Order.DepOrderSpec Order.DepOrder_proofs Order.DepOrderFixed Order.DepOrderFixed_proofs.
Import ListNotations.
Local Open Scope list_scope.

Section Ord.
Variable cells : list cell.
Let n := List.length cells.
Let items := map N.of_nat (seq 0 n).
Let deps := cell_deps_N cells.

Definition deps_of (i : nat) : list nat :=
  match nth_error cells i with Some c => cell_deps c | None => [] end.
(** every instance points into the library *)
Definition closed : Prop := forall i d, In d (deps_of i) -> (d < n)%nat.

Lemma deps_of_nat : forall i, deps (N.of_nat i) = map N.of_nat (deps_of i).
Proof.
  intros i. unfold deps, cell_deps_N, deps_of. rewrite Nat2N.id. destruct (nth_error cells i); reflexivity.
Qed.

Lemma reach_of_nat : forall x y, DepOrderSpec.reach deps x y -> (exists i, x = N.of_nat i) -> exists j, y = N.of_nat j.
Proof.
  induction 1 as [x|x d y Hd Hr IH]; intros [i Hi]; eauto.
  apply IH. subst x. rewrite deps_of_nat in Hd. apply in_map_iff in Hd. destruct Hd as [j [<- _]]. eauto.
Qed.
Lemma reachable_of_nat : forall x, DepOrderSpec.reachable deps items x -> exists i, x = N.of_nat i.
Proof.
  intros x [r [Hr Hx]]. eapply reach_of_nat; eauto. unfold items in Hr. apply in_map_iff in Hr.
  destruct Hr as [i [<- _]]. eauto.
Qed.
Lemma reach_closed : closed -> forall x y, DepOrderSpec.reach deps x y ->
  (exists i, x = N.of_nat i /\ (i < n)%nat) -> exists j, y = N.of_nat j /\ (j < n)%nat.
Proof.
  intros Hc. induction 1 as [x|x d y Hd Hr IH]; intros [i [Hi Hlt]]; eauto.
  apply IH. subst x. rewrite deps_of_nat in Hd. apply in_map_iff in Hd. destruct Hd as [j [<- Hj]].
  exists j. split; auto. eapply Hc; eauto.
Qed.
Lemma reachable_closed : closed -> forall x, DepOrderSpec.reachable deps items x -> In x items.
Proof.
  intros Hc x [r [Hr Hx]]. unfold items in Hr. apply in_map_iff in Hr. destruct Hr as [i [<- Hi]].
  apply in_seq in Hi. destruct (reach_closed Hc _ _ Hx) as [j [-> Hj]]; [exists i; split; auto; lia|].
  unfold items. apply in_map. apply in_seq. lia.
Qed.

Lemma of_nat_inj : Injective N.of_nat.
Proof. intros a b H. apply Nat2N.inj; auto. Qed.
Lemma to_nat_inj : Injective N.to_nat.
Proof. intros a b H. apply N2Nat.inj; auto. Qed.

(** what a returned order is (C17: [order_checked_sound]) *)
Theorem dep_order_sound : forall order, dep_order cells = Ok order ->
  NoDup order /\
  (forall i, (i < n)%nat -> In i order) /\
  (closed -> forall i, In i order -> (i < n)%nat) /\
  (forall l1 x l2, order = l1 ++ x :: l2 -> forall d, In d (deps_of x) -> In d l1).
Proof.
  intros order H. unfold dep_order in H. fold n in H. fold items in H. fold deps in H.
  destruct (DepOrderFixed.order_checked (S n) DepOrder.all_defined deps items) as [out| | |] eqn:E; try discriminate.
  inversion H; subst order; clear H.
  destruct (DepOrderFixed_proofs.order_checked_sound _ _ _ _ _ E) as [[Hnd [Hin Hbef]] _].
  assert (Hall : forall x, In x out -> exists i, x = N.of_nat i).
  { intros x Hx. apply reachable_of_nat. apply Hin. auto. }
  assert (Hback : map N.of_nat (map N.to_nat out) = out).
  { clear - Hall. induction out as [|x r IH]; simpl; auto. rewrite IH by (intros; apply Hall; right; auto).
    destruct (Hall x (or_introl eq_refl)) as [i ->]. rewrite Nat2N.id. auto. }
  split; [|split; [|split]].
  - apply Injective_map_NoDup; auto. apply to_nat_inj.
  - intros i Hi. apply in_map_iff. exists (N.of_nat i). split; [apply Nat2N.id|]. apply Hin.
    apply DepOrder_proofs.reachable_root. unfold items. apply in_map. apply in_seq. lia.
  - intros Hc i Hi. apply in_map_iff in Hi. destruct Hi as [x [<- Hx]].
    apply Hin in Hx. apply (reachable_closed Hc) in Hx. unfold items in Hx. apply in_map_iff in Hx.
    destruct Hx as [j [<- Hj]]. rewrite Nat2N.id. apply in_seq in Hj. lia.
  - intros l1 x l2 Eo d Hd.
    assert (Eout : out = map N.of_nat l1 ++ N.of_nat x :: map N.of_nat l2).
    { rewrite <- Hback, Eo, map_app. reflexivity. }
    assert (In (N.of_nat d) (map N.of_nat l1)).
    { eapply Hbef; eauto. rewrite deps_of_nat. apply in_map. auto. }
    apply in_map_iff in H. destruct H as [d' [Hd' Hin']]. apply of_nat_inj in Hd'. subst. auto.
Qed.

Lemma dep_order_perm : closed -> forall order, dep_order cells = Ok order -> Permutation (seq 0 n) order.
Proof.
  intros Hc order H. destruct (dep_order_sound _ H) as [Hnd [H1 [H2 _]]].
  apply NoDup_Permutation; auto. - apply seq_NoDup.
  - intros i. rewrite in_seq. split; intros Hi; [apply H1; lia|specialize (H2 Hc i Hi); lia].
Qed.

(** on an acyclic closed library an order is returned (C17: [order_checked_total]) *)
Theorem dep_order_total : closed -> acyclic cells -> exists order, dep_order cells = Ok order.
Proof.
  intros Hc Hac. unfold dep_order. fold n. fold items. fold deps.
  pose proof (DepOrderFixed_proofs.order_checked_total DepOrder.all_defined deps items items (reachable_closed Hc)) as T.
  cbv zeta in T. replace (List.length items) with n in T by (unfold items; rewrite map_length, seq_length; auto).
  destruct T as [[[Hcyc|Hd] _]|[_ [_ [out [E _]]]]].
  - exfalso. destruct Hcyc as [x [_ Hx]]. exact (Hac x Hx).
  - exfalso. destruct Hd as [x [d [_ [_ Hdef]]]]. discriminate.
  - rewrite E. eauto.
Qed.

(** a cyclic library is refused with the error, never a panic, never unbounded recursion *)
Theorem dep_order_cyclic : closed -> ~ acyclic cells -> exists e, dep_order cells = Err e.
Proof.
  intros Hc Hac. unfold dep_order. fold n. fold items. fold deps.
  pose proof (DepOrderFixed_proofs.order_checked_total DepOrder.all_defined deps items items (reachable_closed Hc)) as T.
  cbv zeta in T. replace (List.length items) with n in T by (unfold items; rewrite map_length, seq_length; auto).
  destruct T as [[_ E]|[Hn [_ [out [E Ht]]]]].
  - rewrite E. eauto.
  - exfalso. apply Hac. intros x Hx. apply Hn. exists x. split; auto.
    (* x reaches itself through a dependency, so it is a cell index: it is one of the roots *)
    destruct Hx as [d [Hd Hr]]. unfold deps, cell_deps_N in Hd.
    destruct (nth_error cells (N.to_nat x)) eqn:En; [|destruct Hd].
    apply DepOrder_proofs.reachable_root. unfold items. apply in_map_iff. exists (N.to_nat x). split; [apply N2Nat.id|].
    apply in_seq. assert (N.to_nat x < n)%nat by (apply nth_error_Some; congruence). lia.
Qed.
End Ord.

(** * Exported messages list cells before their users *)
Lemma export_instance_ref : forall xrot cells i pi,
  export_instance xrot cells i = Ok pi ->
  exists t, nth_error cells (i_cell i) = Some t /\ pi_cell pi = Some (Some (RefLocal (c_name t))).
Proof.
  intros xrot cells i pi H. unfold export_instance in H.
  destruct (nth_error cells (i_cell i)) as [t|]; try discriminate.
  inv_ok H. exists t. split; auto.
Qed.

Lemma export_cell_refs : forall xrot ly ord cells c pc,
  export_cell xrot ly ord cells c = Ok pc ->
  pc_name pc = c_name c /\
  forall pi, In pi (pcell_insts pc) ->
    exists t d, In d (cell_deps c) /\ nth_error cells d = Some t /\ pi_cell pi = Some (Some (RefLocal (c_name t))).
Proof.
  intros xrot ly ord cells c pc H. unfold export_cell in H.
  inv_ok H. split; auto. unfold pcell_insts; simpl. intros pi Hpi.
  unfold cell_deps. destruct (c_layout c) as [l|].
  - inv_ok Ha. unfold export_layout in Ha1. inv_ok Ha1. simpl in Hpi.
    apply mapM_ok in Ha. clear - Ha Hpi.
    induction Ha; [destruct Hpi|]. destruct Hpi as [<-|Hpi].
    + apply export_instance_ref in H. destruct H as [t [Ht Hr]]. exists t, (i_cell x). simpl; auto.
    + destruct (IHHa Hpi) as [t [d [Hd Ht]]]. exists t, d. simpl; auto.
  - inv_ok Ha. destruct Hpi.
Qed.

Lemma export_deps_first_aux : forall xrot ly ord cells l pcs seen,
  mapM (fun i => match nth_error cells i with
                 | Some c => export_cell xrot ly ord cells c
                 | None => Err "model: dangling cell index"%string
                 end) l = Ok pcs ->
  (forall l1 x l2, l = l1 ++ x :: l2 -> forall d, In d (deps_of cells x) ->
     In d l1 \/ exists t, nth_error cells d = Some t /\ In (c_name t) seen) ->
  deps_first_from seen pcs.
Proof.
  intros xrot ly ord cells. induction l as [|x r IH]; intros pcs seen H Hd; simpl in H.
  - inv_ok H. simpl. auto.
  - inv_ok H. simpl. destruct (nth_error cells x) as [c|] eqn:Hc; try discriminate.
    apply export_cell_refs in Ha. destruct Ha as [Hn Hr]. split.
    + intros pi Hpi. destruct (Hr pi Hpi) as [t [d [Hd1 [Ht Hp]]]]. exists (c_name t). split; auto.
      destruct (Hd [] x r eq_refl d) as [[]|[t' [Ht' Hin]]].
      * unfold deps_of. rewrite Hc. auto.
      * congruence.
    + apply IH; auto. intros l1 y l2 E d Hdy.
      destruct (Hd (x :: l1) y l2) with (d := d) as [[<-|Hin]|Hs]; auto.
      * rewrite E. reflexivity.
      * right. exists c. split; auto. rewrite Hn. left; auto.
      * right. destruct Hs as [t [Ht Hin]]. exists t. split; auto. right; auto.
Qed.

Theorem export_deps_first : forall xrot ord L P, to_proto_with xrot ord L = Ok P -> deps_first P.
Proof.
  intros xrot ord L P H. unfold to_proto_with in H. inv_ok H. unfold deps_first. simpl.
  eapply export_deps_first_aux; eauto.
  intros l1 x l2 E d Hd. left. destruct (dep_order_sound _ _ Ha0) as [_ [_ [_ Hb]]]. eapply Hb; eauto.
Qed.

(** * The importer and undefined references *)
Definition undefined_msg : string := "Instance proto::Instance of undefined cell".
(** [clean r]: if [r] is an error, it is not the undefined-reference error *)
Definition clean {A : Type} (r : res A) : Prop := forall e, r = Err e -> e <> undefined_msg.

Lemma clean_ok : forall (A : Type) (a : A), clean (Ok a).
Proof. intros A a e H. discriminate. Qed.
Lemma clean_panic : forall (A : Type), clean (@Panic string A).
Proof. intros A e H. discriminate. Qed.
Lemma clean_obind : forall (A B : Type) (x : res A) (f : A -> res B),
  clean x -> (forall a, x = Ok a -> clean (f a)) -> clean (obind x f).
Proof.
  intros A B x f Hx Hf e H. destruct x as [a|e'| |]; simpl in H; try discriminate.
  - eapply Hf; eauto. - inversion H; subst. apply Hx; auto.
Qed.
Lemma clean_mapM : forall (A B : Type) (f : A -> res B) l, (forall x, In x l -> clean (f x)) -> clean (mapM f l).
Proof.
  induction l as [|x r IH]; intros H; simpl; [apply clean_ok|].
  apply clean_obind; [apply H; left; auto|]. intros y _. apply clean_obind; [apply IH; intros; apply H; right; auto|].
  intros ys _. apply clean_ok.
Qed.
Lemma clean_foldM : forall (S A : Type) (f : S -> A -> res S) l s, (forall s x, In x l -> clean (f s x)) -> clean (foldM f l s).
Proof.
  induction l as [|x r IH]; intros s H; simpl; [apply clean_ok|].
  apply clean_obind; [apply H; left; auto|]. intros s' _. apply IH. intros; apply H; right; auto.
Qed.
Ltac clean_err := let e := fresh in let H := fresh in intros e H; inversion H; subst; unfold undefined_msg; discriminate.

Lemma clean_import_rect : forall r, clean (import_rect r).
Proof. intros r. unfold import_rect. destruct (pr_ll r); [|clean_err]. destruct (_ && _); [apply clean_ok|apply clean_panic]. Qed.
Lemma clean_import_path : forall p, clean (import_path p).
Proof. intros p. unfold import_path. destruct (0 <=? pp_width p)%Z; [apply clean_ok|clean_err]. Qed.
Lemma clean_import_layer : forall ly l, clean (import_layer ly l).
Proof. intros. unfold import_layer. destruct (_ && _); [apply clean_ok|clean_err]. Qed.
Lemma clean_import_layer_shapes : forall ly ls, clean (import_layer_shapes ly ls).
Proof.
  intros. unfold import_layer_shapes. destruct (pls_layer ls); [|clean_err].
  apply clean_obind; [apply clean_import_layer|]. intros [[ly1 key] purp] _.
  apply clean_obind. { apply clean_mapM. intros r _. apply clean_obind; [apply clean_import_rect|]. intros; apply clean_ok. }
  intros rs _. apply clean_obind. { apply clean_mapM. intros r _. apply clean_obind; [apply clean_import_path|]. intros; apply clean_ok. }
  intros; apply clean_ok.
Qed.
Lemma clean_import_abs_layer_shapes : forall ly ls, clean (import_abstract_layer_shapes ly ls).
Proof.
  intros. unfold import_abstract_layer_shapes. destruct (pls_layer ls); [|clean_err].
  apply clean_obind; [apply clean_import_layer|]. intros [[ly1 key] purp] _.
  apply clean_obind; [apply clean_mapM; intros; apply clean_import_rect|]. intros rs _.
  apply clean_obind; [apply clean_mapM; intros; apply clean_import_path|]. intros; apply clean_ok.
Qed.
Lemma clean_import_abs_entry : forall st ls, clean (import_abs_entry st ls).
Proof.
  intros [ly m] ls. unfold import_abs_entry. destruct (pls_layer ls); [|apply clean_panic].
  destruct (get_or_insert _ _ _) as [[ly1 key] pp0]. apply clean_obind; [apply clean_import_abs_layer_shapes|].
  intros [ly2 shapes] _. apply clean_ok.
Qed.
Lemma clean_import_abstract : forall ly a, clean (import_abstract ly a).
Proof.
  intros. unfold import_abstract. apply clean_obind.
  { apply clean_foldM. intros [ly1 acc] p _. apply clean_obind.
    - unfold import_abstract_port. apply clean_obind; [apply clean_foldM; intros; apply clean_import_abs_entry|].
      intros [ly2 m] _. apply clean_ok.
    - intros [ly' port] _. apply clean_ok. }
  intros [ly1 ports] _. apply clean_obind; [apply clean_foldM; intros; apply clean_import_abs_entry|].
  intros [ly2 blk] _. destruct (pab_outline a); [apply clean_ok|apply clean_panic].
Qed.
Lemma clean_import_annotation : forall t, clean (import_annotation t).
Proof. intros. unfold import_annotation. destruct (ptx_loc t); [apply clean_ok|clean_err]. Qed.

(** the instance lookup: clean when the name is bound *)
Lemma clean_import_instance : forall cm pi,
  (exists nm, pi_cell pi = Some (Some (RefLocal nm)) /\ cm_get cm nm <> None) -> clean (import_instance cm pi).
Proof.
  intros cm pi [nm [Hc Hb]]. unfold import_instance. rewrite Hc. destruct (cm_get cm nm); [|congruence].
  destruct (pi_origin pi); [apply clean_ok|clean_err].
Qed.

Lemma clean_import_cell : forall ly cm c,
  (forall i, In i (pcell_insts c) -> exists nm, pi_cell i = Some (Some (RefLocal nm)) /\ cm_get cm nm <> None) ->
  clean (import_cell ly cm c).
Proof.
  intros ly cm c H. unfold import_cell. apply clean_obind.
  - unfold pcell_insts in H. destruct (pc_layout c) as [l|]; [|apply clean_ok].
    apply clean_obind; [|intros [ly' x] _; apply clean_ok]. unfold import_layout.
    apply clean_obind; [apply clean_mapM; intros i Hi; apply clean_import_instance; auto|]. intros insts _.
    apply clean_obind.
    { apply clean_foldM. intros [ly1 acc] s _. apply clean_obind; [apply clean_import_layer_shapes|]. intros [ly' es] _. apply clean_ok. }
    intros [ly1 elems] _. apply clean_obind; [apply clean_mapM; intros; apply clean_import_annotation|]. intros; apply clean_ok.
  - intros [ly1 lay] _. apply clean_obind; [|intros [ly2 ab] _; apply clean_ok].
    destruct (pc_abs c); [|apply clean_ok]. apply clean_obind; [apply clean_import_abstract|]. intros [ly' x] _. apply clean_ok.
Qed.

Lemma clean_import_cells : forall pcs seen ly cm cells,
  deps_first_from seen pcs -> (forall nm, In nm seen -> cm_get cm nm <> None) ->
  clean (foldM import_step pcs (ly, cm, cells)).
Proof.
  induction pcs as [|c r IH]; intros seen ly cm cells Hd Hcm; simpl; [apply clean_ok|].
  destruct Hd as [Hc Hr]. apply clean_obind.
  - unfold import_step. apply clean_obind; [|intros [ly' c'] _; apply clean_ok].
    apply clean_import_cell. intros i Hi. destruct (Hc i Hi) as [nm [E Hin]]. eauto.
  - intros [[ly1 cm1] cells1] E. unfold import_step in E. inv_ok E. destruct a as [ly' c']. inv_ok E.
    apply (IH (pc_name c :: seen)); auto. intros nm [<-|Hin]; simpl.
    + rewrite String.eqb_refl. discriminate.
    + destruct (String.eqb nm (pc_name c)); [discriminate|auto].
Qed.

(** given a message that lists cells before their users, the importer never reports an
    undefined cell (whatever else may be wrong with the message) *)
Theorem import_no_undefined : forall ly0 P e,
  deps_first P -> from_proto ly0 P = Err e -> e <> undefined_msg.
Proof.
  intros ly0 P e Hd. revert e. change (clean (from_proto ly0 P)). unfold from_proto.
  apply clean_obind. { unfold import_units. repeat (destruct (_ =? _)%Z; [apply clean_ok|]). clean_err. }
  intros u _. apply clean_obind; [|intros [[ly cm] cells] _; apply clean_ok].
  eapply clean_import_cells; [exact Hd|intros nm []].
Qed.

(** and the message is right about it: the error exists in the importer *)
Lemma import_undefined_exists :
  from_proto [] (mkplib "" 0 [mkpcell "a" false None (Some (mkplayout "a" [] [mkpinst "i" (Some (Some (RefLocal "b"))) (Some (mkpp 0 0)) false 0] []))] false)
  = Err undefined_msg.
Proof. reflexivity. Qed.
