(** Model of the PROPOSED REPAIR of the three hand-rolled orderers (property C17): each gets the
    pending set and the error return of the generic helper (patch in the C17 report).  Not a
    model of code present in the unrepaired /repo; the correspondence run uses it only when the
    source of the orderer is found to carry a `pending` field (tools/props/c17.py).

    All three repaired orderers: seen check, pending check + insert, dependencies, pending
    remove (result not tested), seen insert, stack push: [order_checked].  For the repaired
    GdsDepOrder the name lookup in front of every recursive call returns the error instead of
    panicking ([defined x] = "a struct named x exists"); for the pointer-based ones
    [defined = all_defined].  No proofs here. *)
From Coq Require Import NArith List Bool.
From L21 Require Import Order.DepOrder.
Import ListNotations.

(** `self.push(self.get(&x.name)?)?` *)
Definition lookup_err {S : Type} (defined : N -> bool) (p : S -> N -> res S) (s : S) (d : N) : res S :=
  if defined d then p s d else Err.

Fixpoint cpush (fuel : nat) (defined : N -> bool) (deps : N -> list N) (s : st) (item : N) : res st :=
  match fuel with
  | O => OutOfFuel
  | S f =>
    if mem item (seen s) then Ok s
    else if mem item (pending s) then Err
    else
      let s1 := mkst (stack s) (seen s) (set_insert item (pending s)) in
      match for_each (lookup_err defined (cpush f defined deps)) s1 (deps item) with
      | Ok s2 =>
        Ok (mkst (stack s2 ++ [item]) (set_insert item (seen s2)) (set_remove item (pending s2)))
      | e => e
      end
  end.

Definition order_checked (fuel : nat) (defined : N -> bool) (deps : N -> list N) (items : list N)
  : res (list N) :=
  match for_each (cpush fuel defined deps) (mkst [] [] []) items with
  | Ok s => Ok (stack s)
  | Err => Err
  | Panic => Panic
  | OutOfFuel => OutOfFuel
  end.
