(** C20 at the level of the conversion models (Raw/RawProto.v, Raw/RawGdsExport.v; the importers Raw/RawGds.v,
    Raw/RawLef.v, Tetris/Compile.v, Tetris/TProto.v take no order argument and appear only in section 10;
    the raw -> LEF exporter Raw/RawLefExport.v is treated in Raw/RawLefExport_proofs.v with the definitions of
    sections 1-2 of this file).

    A `HashMap<LayerKey, Vec<Shape>>` is an association list [shapemap] with pairwise distinct keys
    (Raw/RawData.v); the ORDER of that list stands for the order in which the hash map happens to yield its
    entries, which differs from process to process.  Two libraries that are the same library in two processes
    are therefore related by [lib_maps_permuted]: equal everywhere except that the entries of each abstract's
    blockages map and of each port's shapes map are listed in another order.

    Contents: 1 [sorted_by_layer] is the sorted iteration of Order/SortedIter.v; 2 [lib_maps_permuted];
    3-5 the protobuf exporter (order-independent as it stands, refuted without the sort); 6 the GDSII exporter
    (same; its model has no order argument, so the variant with one is defined here and shown to be the model
    at [sorted_by_layer]); 7 dates; 8 the protobuf importer returns maps with distinct keys, so the chain
    protobuf -> raw -> protobuf is covered; 9 lookups do not depend on the entry order; 10 the table
    conversion -> hash-typed names -> iteration sites, and the check [table_ok] of that table against a site
    list (Properties/C20.v applies it to the list regenerated from the sources, Gen/HashIterGen.v); 11 a sort
    by something other than the map's own key does not make the iteration deterministic.
    Only model files, Order/SortedIter.v and Order/HashIterAllowed.v are required: no other property's proofs,
    no generated file. *)
From Coq Require Import ZArith NArith List String Bool Lia Permutation Arith FinFun.
From L21 Require Import Base.Outcome Raw.RawData Order.SortedIter Order.HashIterAllowed.
From L21 Require Raw.RawProto Raw.RawGdsExport Gds.GdsData Order.DepOrder Order.DepOrderFixed.
Import ListNotations.
Set Implicit Arguments.
Local Open Scope list_scope.
Local Open Scope outcome_scope.

Module P := Raw.RawProto.
Module X := Raw.RawGdsExport.
Module G := Gds.GdsData.

(** * 1. [sorted_by_layer] is the sorted iteration of Order/SortedIter.v on the keys read as integers *)
Definition zk (e : nat * list shape) : Z * list shape := (Z.of_nat (fst e), snd e).

Lemma zk_inj : forall a b, zk a = zk b -> a = b.
Proof.
  intros [a1 a2] [b1 b2] H. unfold zk in H. cbn [fst snd] in H. inversion H as [[H1 H2]].
  apply Nat2Z.inj in H1. subst. reflexivity.
Qed.

Lemma map_inj_eq : forall (A B : Type) (f : A -> B), (forall a b, f a = f b -> a = b) ->
  forall l l', map f l = map f l' -> l = l'.
Proof.
  intros A B f Hf. induction l as [|x r IH]; intros [|y r'] H; cbn [map] in H; try discriminate; [reflexivity|].
  inversion H as [[H1 H2]]. apply Hf in H1. apply IH in H2. subst. reflexivity.
Qed.

Lemma leb_nat_Z : forall a b, Nat.leb a b = (Z.of_nat a <=? Z.of_nat b)%Z.
Proof.
  intros a b. destruct (Nat.leb_spec a b) as [H|H]; destruct (Z.leb_spec (Z.of_nat a) (Z.of_nat b)) as [H'|H']; try reflexivity; lia.
Qed.

Lemma map_zk_insert : forall x l, map zk (P.insert_entry x l) = insert (zk x) (map zk l).
Proof.
  intros x. induction l as [|y r IH]; cbn [P.insert_entry map insert]; [reflexivity|].
  rewrite leb_nat_Z. change (fst (zk x)) with (Z.of_nat (fst x)). change (fst (zk y)) with (Z.of_nat (fst y)).
  destruct (Z.of_nat (fst x) <=? Z.of_nat (fst y))%Z; cbn [map]; [reflexivity|]. rewrite IH. reflexivity.
Qed.

Lemma map_zk_sorted : forall m, map zk (P.sorted_by_layer m) = isort (map zk m).
Proof.
  unfold P.sorted_by_layer. induction m as [|x r IH]; cbn [fold_right map isort]; [reflexivity|].
  rewrite map_zk_insert, IH. reflexivity.
Qed.

Lemma keys_zk : forall m, map fst (map zk m) = map Z.of_nat (map fst m).
Proof. induction m as [|x r IH]; cbn [map]; [reflexivity|]. rewrite IH. reflexivity. Qed.

(** the entries of a map (distinct keys), listed in two orders, are visited in ONE order by [sorted_by_layer] *)
Lemma sorted_by_layer_order_irrelevant : forall m1 m2,
  NoDup (map fst m1) -> Permutation m1 m2 -> P.sorted_by_layer m1 = P.sorted_by_layer m2.
Proof.
  intros m1 m2 Hnd Hp. apply (@map_inj_eq _ _ zk zk_inj). rewrite !map_zk_sorted.
  apply sorted_iteration_order_irrelevant.
  - rewrite keys_zk. apply Injective_map_NoDup; [|exact Hnd]. intros a b H. apply Nat2Z.inj. exact H.
  - apply Permutation_map. exact Hp.
Qed.

Lemma X_sorted_by_layer_eq : X.sorted_by_layer = P.sorted_by_layer.
Proof. reflexivity. Qed.

(** * 2. Libraries that differ only in the order in which the hash maps list their entries *)
Definition map_permuted (m1 m2 : shapemap) : Prop := NoDup (map fst m1) /\ Permutation m1 m2.
Definition port_permuted (p1 p2 : absport) : Prop :=
  ap_net p1 = ap_net p2 /\ map_permuted (ap_shapes p1) (ap_shapes p2).
Definition abs_permuted (a1 a2 : abstract) : Prop :=
  ab_name a1 = ab_name a2 /\ ab_outline a1 = ab_outline a2 /\
  Forall2 port_permuted (ab_ports a1) (ab_ports a2) /\ map_permuted (ab_blockages a1) (ab_blockages a2).
Definition oabs_permuted (a1 a2 : option abstract) : Prop :=
  match a1, a2 with
  | Some x, Some y => abs_permuted x y
  | None, None => True
  | _, _ => False
  end.
Definition cell_permuted (c1 c2 : cell) : Prop :=
  c_name c1 = c_name c2 /\ c_layout c1 = c_layout c2 /\ oabs_permuted (c_abs c1) (c_abs c2).
Definition lib_maps_permuted (L1 L2 : library) : Prop :=
  lib_name L1 = lib_name L2 /\ lib_units L1 = lib_units L2 /\ lib_layers L1 = lib_layers L2 /\
  Forall2 cell_permuted (lib_cells L1) (lib_cells L2).
(** every map of the library has pairwise distinct keys (it IS a map) *)
Definition lib_maps_wf (L : library) : Prop := lib_maps_permuted L L.

Lemma map_permuted_sym : forall m1 m2, map_permuted m1 m2 -> map_permuted m2 m1.
Proof.
  intros m1 m2 [Hn Hp]. split; [|apply Permutation_sym; exact Hp].
  eapply Permutation_NoDup; [apply Permutation_map; exact Hp|exact Hn].
Qed.

(** * 3. Generic congruences *)
Lemma Forall2_len : forall (A B : Type) (R : A -> B -> Prop) l l', Forall2 R l l' -> List.length l = List.length l'.
Proof. induction 1; cbn [List.length]; auto. Qed.

Lemma Forall2_nth_error_rel : forall (A B : Type) (R : A -> B -> Prop) l l', Forall2 R l l' ->
  forall n, match nth_error l n, nth_error l' n with
            | Some a, Some b => R a b
            | None, None => True
            | _, _ => False
            end.
Proof.
  induction 1 as [|a b l l' Hab Hf IH]; intros [|n]; cbn [nth_error]; auto. apply IH.
Qed.

Lemma P_mapM_cong : forall (A A' B : Type) (R : A -> A' -> Prop) (f : A -> P.res B) (g : A' -> P.res B) l l',
  Forall2 R l l' -> (forall x y, R x y -> f x = g y) -> P.mapM f l = P.mapM g l'.
Proof.
  intros A A' B R f g l l' HF Hfg. induction HF as [|x y l l' Hxy HF IH]; cbn [P.mapM]; [reflexivity|].
  rewrite (Hfg _ _ Hxy), IH. reflexivity.
Qed.
Lemma P_mapM_ext : forall (A B : Type) (f g : A -> P.res B) l, (forall x, f x = g x) -> P.mapM f l = P.mapM g l.
Proof.
  intros A B f g l H. induction l as [|x r IH]; cbn [P.mapM]; [reflexivity|]. rewrite H, IH. reflexivity.
Qed.

(** * 4. The cell order does not look at the abstracts *)
Module D := Order.DepOrder.
Module DF := Order.DepOrderFixed.

Lemma for_each_ext : forall (S : Type) (p q : S -> N -> D.res S), (forall s x, p s x = q s x) ->
  forall l s, D.for_each p s l = D.for_each q s l.
Proof.
  intros S p q H. induction l as [|x r IH]; intros s; cbn [D.for_each]; [reflexivity|].
  rewrite H. destruct (q s x); try reflexivity. apply IH.
Qed.

Lemma cpush_ext : forall defined deps1 deps2, (forall x, deps1 x = deps2 x) ->
  forall fuel s item, DF.cpush fuel defined deps1 s item = DF.cpush fuel defined deps2 s item.
Proof.
  intros defined deps1 deps2 H. induction fuel as [|f IH]; intros s item; cbn [DF.cpush]; [reflexivity|].
  rewrite H.
  rewrite (for_each_ext (DF.lookup_err defined (DF.cpush f defined deps1)) (DF.lookup_err defined (DF.cpush f defined deps2))).
  - reflexivity.
  - intros s' x. unfold DF.lookup_err. destruct (defined x); [apply IH|reflexivity].
Qed.

Lemma order_checked_ext : forall fuel defined deps1 deps2 items, (forall x, deps1 x = deps2 x) ->
  DF.order_checked fuel defined deps1 items = DF.order_checked fuel defined deps2 items.
Proof.
  intros fuel defined deps1 deps2 items H. unfold DF.order_checked.
  rewrite (for_each_ext (DF.cpush fuel defined deps1) (DF.cpush fuel defined deps2)); [reflexivity|].
  intros s x. apply cpush_ext. exact H.
Qed.

Lemma dep_order_permuted : forall cells1 cells2, Forall2 cell_permuted cells1 cells2 ->
  P.dep_order cells1 = P.dep_order cells2.
Proof.
  intros cells1 cells2 HF. unfold P.dep_order.
  rewrite (Forall2_len HF).
  rewrite (order_checked_ext _ _ (P.cell_deps_N cells1) (P.cell_deps_N cells2)); [reflexivity|].
  intros x. unfold P.cell_deps_N. pose proof (Forall2_nth_error_rel HF (N.to_nat x)) as Hn.
  destruct (nth_error cells1 (N.to_nat x)) as [c1|], (nth_error cells2 (N.to_nat x)) as [c2|]; try contradiction; [|reflexivity].
  destruct Hn as [_ [Hl _]]. unfold P.cell_deps. rewrite Hl. reflexivity.
Qed.

(** * 5. The protobuf exporter *)
Section ProtoExport.
Variable xrot : option Z -> P.res Z.
Variables ord1 ord2 : P.oracle.
Hypothesis Hord : forall m1 m2, map_permuted m1 m2 -> ord1 m1 = ord2 m2.

Lemma export_instance_permuted : forall cells1 cells2 i, Forall2 cell_permuted cells1 cells2 ->
  P.export_instance xrot cells1 i = P.export_instance xrot cells2 i.
Proof.
  intros cells1 cells2 i HF. unfold P.export_instance.
  pose proof (Forall2_nth_error_rel HF (i_cell i)) as Hn.
  destruct (nth_error cells1 (i_cell i)) as [c1|], (nth_error cells2 (i_cell i)) as [c2|]; try contradiction; [|reflexivity].
  destruct Hn as [Hname _]. rewrite Hname. reflexivity.
Qed.

Lemma export_layout_permuted : forall ly cells1 cells2 l, Forall2 cell_permuted cells1 cells2 ->
  P.export_layout xrot ly cells1 l = P.export_layout xrot ly cells2 l.
Proof.
  intros ly cells1 cells2 l HF. unfold P.export_layout.
  rewrite (P_mapM_ext (P.export_instance xrot cells1) (P.export_instance xrot cells2));
    [reflexivity | intros i; apply export_instance_permuted; exact HF].
Qed.

Lemma export_abstract_port_permuted : forall ly p1 p2, port_permuted p1 p2 ->
  P.export_abstract_port ly ord1 p1 = P.export_abstract_port ly ord2 p2.
Proof.
  intros ly p1 p2 [Hnet Hm]. unfold P.export_abstract_port. rewrite (Hord Hm), Hnet. reflexivity.
Qed.

Lemma export_abstract_permuted : forall ly a1 a2, abs_permuted a1 a2 ->
  P.export_abstract ly ord1 a1 = P.export_abstract ly ord2 a2.
Proof.
  intros ly a1 a2 [Hname [Hout [Hports Hblk]]]. unfold P.export_abstract.
  rewrite (P_mapM_cong (P.export_abstract_port ly ord1) (P.export_abstract_port ly ord2) Hports)
    by (intros x y Hxy; apply export_abstract_port_permuted; exact Hxy).
  rewrite (Hord Hblk), Hname, Hout. reflexivity.
Qed.

Lemma export_cell_permuted : forall ly cells1 cells2 c1 c2,
  Forall2 cell_permuted cells1 cells2 -> cell_permuted c1 c2 ->
  P.export_cell xrot ly ord1 cells1 c1 = P.export_cell xrot ly ord2 cells2 c2.
Proof.
  intros ly cells1 cells2 c1 c2 HF [Hname [Hlay Habs]]. unfold P.export_cell.
  rewrite Hlay, Hname.
  replace (match c_abs c1 with
           | Some a => let? pa := P.export_abstract ly ord1 a in Ok (Some pa)
           | None => Ok None
           end)
     with (match c_abs c2 with
           | Some a => let? pa := P.export_abstract ly ord2 a in Ok (Some pa)
           | None => Ok None
           end).
  - destruct (c_layout c2) as [l|]; [|reflexivity]. rewrite (export_layout_permuted ly l HF). reflexivity.
  - unfold oabs_permuted in Habs. destruct (c_abs c1) as [a1|], (c_abs c2) as [a2|]; try contradiction; [|reflexivity].
    rewrite (export_abstract_permuted ly Habs). reflexivity.
Qed.

Lemma to_proto_with_permuted : forall L1 L2, lib_maps_permuted L1 L2 ->
  P.to_proto_with xrot ord1 L1 = P.to_proto_with xrot ord2 L2.
Proof.
  intros L1 L2 [Hname [Hu [Hly HF]]]. unfold P.to_proto_with.
  rewrite Hu, Hname, (dep_order_permuted HF).
  destruct (P.export_units (lib_units L2)) as [u| | |]; cbn [obind]; try reflexivity.
  destruct (P.dep_order (lib_cells L2)) as [order| | |]; cbn [obind]; try reflexivity.
  match goal with |- obind (P.mapM ?f _) _ = obind (P.mapM ?g _) _ => rewrite (P_mapM_ext f g) end; [reflexivity|].
  intros i. pose proof (Forall2_nth_error_rel HF i) as Hn.
  destruct (nth_error (lib_cells L1) i) as [c1|], (nth_error (lib_cells L2) i) as [c2|]; try contradiction; [|reflexivity].
  rewrite Hly. apply export_cell_permuted; assumption.
Qed.
End ProtoExport.

(** a hash map's own iteration order: any function that returns a permutation of the entries *)
Definition perm_oracle (h : shapemap -> shapemap) : Prop := forall m, Permutation (h m) m.

Lemma sorted_after_hash_order : forall h1 h2, perm_oracle h1 -> perm_oracle h2 ->
  forall m1 m2, map_permuted m1 m2 -> P.sorted_by_layer (h1 m1) = P.sorted_by_layer (h2 m2).
Proof.
  intros h1 h2 H1 H2 m1 m2 [Hnd Hp]. apply sorted_by_layer_order_irrelevant.
  - eapply Permutation_NoDup; [apply Permutation_map, Permutation_sym, H1|exact Hnd].
  - eapply perm_trans; [apply H1|]. eapply perm_trans; [exact Hp|]. apply Permutation_sym, H2.
Qed.

Theorem proto_export_order_independent : forall xrot L1 L2, lib_maps_permuted L1 L2 ->
  P.to_proto_with xrot P.sorted_by_layer L1 = P.to_proto_with xrot P.sorted_by_layer L2.
Proof.
  intros xrot L1 L2 H. apply to_proto_with_permuted; [|exact H].
  intros m1 m2 [Hnd Hp]. apply sorted_by_layer_order_irrelevant; assumption.
Qed.

Theorem proto_export_any_hash_order : forall xrot h1 h2 L, perm_oracle h1 -> perm_oracle h2 -> lib_maps_wf L ->
  P.to_proto_with xrot (fun m => P.sorted_by_layer (h1 m)) L = P.to_proto_with xrot (fun m => P.sorted_by_layer (h2 m)) L.
Proof.
  intros xrot h1 h2 L H1 H2 Hwf. apply to_proto_with_permuted; [|exact Hwf].
  apply sorted_after_hash_order; assumption.
Qed.

(** the witness: one cell, an abstract with one port on two layers *)
Definition w_layer (n : Z) : layer := mklayer n None [(0, Drawing); (1, Pin); (2, Label); (3, Obstruction)]%Z.
Definition w_rect (a : Z) : shape := Rect (mkpt a a) (mkpt (a + 10) (a + 10))%Z.
Definition w_lib (m : shapemap) : library :=
  mklib "lib" Nano [w_layer 5; w_layer 6]
        [mkcell "c" (Some (mkabstract "c" [mkpt 0 0; mkpt 100 0; mkpt 100 100; mkpt 0 100]%Z [mkabsport "a" m] m)) None].
Definition w_m12 : shapemap := [(0%nat, [w_rect 0]); (1%nat, [w_rect 20])].
Definition w_m21 : shapemap := [(1%nat, [w_rect 20]); (0%nat, [w_rect 0])].

Lemma w_permuted : lib_maps_permuted (w_lib w_m12) (w_lib w_m21).
Proof.
  assert (Hm : map_permuted w_m12 w_m21).
  { split; [|apply perm_swap]. repeat constructor; cbn; intuition discriminate. }
  unfold lib_maps_permuted, w_lib; cbn [lib_name lib_units lib_layers lib_cells].
  split; [reflexivity|]. split; [reflexivity|]. split; [reflexivity|].
  constructor; [|constructor].
  unfold cell_permuted; cbn [c_name c_layout c_abs oabs_permuted].
  split; [reflexivity|]. split; [reflexivity|].
  unfold abs_permuted; cbn [ab_name ab_outline ab_ports ab_blockages].
  split; [reflexivity|]. split; [reflexivity|]. split; [|exact Hm].
  constructor; [|constructor]. split; [reflexivity|exact Hm].
Qed.

Theorem proto_export_map_order_refuted :
  exists L1 L2 P1 P2, lib_maps_permuted L1 L2 /\
    P.to_proto_with P.export_rotation (fun m => m) L1 = Ok P1 /\
    P.to_proto_with P.export_rotation (fun m => m) L2 = Ok P2 /\ P1 <> P2.
Proof.
  exists (w_lib w_m12), (w_lib w_m21). eexists. eexists.
  split; [exact w_permuted|]. split; [vm_compute; reflexivity|]. split; [vm_compute; reflexivity|]. discriminate.
Qed.

(** * 6. The GDSII exporter.
    Raw/RawGdsExport.v transcribes the code of the tree, which visits a port's shapes through
    `sorted_by_layer`; the model has no order argument.  [gds_export_lib_with ord] is the same text with the
    visiting order as an argument (only [export_abstract_port] changes; the other four functions are copied to
    thread the argument); [gds_export_lib_with_sorted] shows that at [sorted_by_layer] it IS the model. *)
Definition gds_export_abstract_port_with (ord : shapemap -> shapemap) (cfg : X.xcfg) (ly : layers) (p : absport)
  : X.res (list G.element) :=
  X.concat_res (map (X.export_port_layer cfg ly (ap_net p)) (ord (ap_shapes p))).

Definition gds_export_abstract_with (ord : shapemap -> shapemap) (cfg : X.xcfg) (ly : layers) (a : abstract)
  : X.res G.gstruct :=
  let? xy := X.export_points (ab_outline a) in
  match ab_outline a with
  | [] => Panic
  | p0 :: _ =>
    let? q0 := X.export_point p0 in
    let outline := X.mk_boundary (X.i16_max, X.i16_max) (xy ++ [q0]) in
    let? ps := X.concat_res (map (gds_export_abstract_port_with ord cfg ly) (ab_ports a)) in
    Ok (G.mkStruct (X.bytes_of_string (ab_name a)) X.zero_dates (outline :: ps))
  end.

Definition gds_export_cell_with (ord : shapemap -> shapemap) (cfg : X.xcfg) (ly : layers) (cells : list cell) (c : cell)
  : X.res (option G.gstruct) :=
  match c_layout c with
  | Some l => let? s := X.export_layout cfg ly cells l in Ok (Some s)
  | None => match c_abs c with
            | Some a => let? s := gds_export_abstract_with ord cfg ly a in Ok (Some s)
            | None => Ok None
            end
  end.

Fixpoint gds_export_cells_with (ord : shapemap -> shapemap) (cfg : X.xcfg) (ly : layers) (cells : list cell) (todo : list cell)
  : X.res (list G.gstruct) :=
  match todo with
  | [] => Ok []
  | c :: r =>
    let? s := gds_export_cell_with ord cfg ly cells c in
    let? ss := gds_export_cells_with ord cfg ly cells r in
    Ok (match s with Some x => x :: ss | None => ss end)
  end.

Definition gds_export_lib_with (ord : shapemap -> shapemap) (cfg : X.xcfg) (L : library) : X.res G.library :=
  let? ss := gds_export_cells_with ord cfg (lib_layers L) (lib_cells L) (lib_cells L) in
  Ok (G.mkLib (X.bytes_of_string (lib_name L)) 3 X.zero_dates (X.export_units (lib_units L)) ss).

Lemma gds_export_cells_with_sorted : forall cfg ly cells todo,
  gds_export_cells_with X.sorted_by_layer cfg ly cells todo = X.export_cells cfg ly cells todo.
Proof.
  intros cfg ly cells. induction todo as [|c r IH]; cbn [gds_export_cells_with X.export_cells]; [reflexivity|].
  rewrite IH. reflexivity.
Qed.

Lemma gds_export_lib_with_sorted : forall cfg L, gds_export_lib_with X.sorted_by_layer cfg L = X.export_lib_gen cfg L.
Proof. intros cfg L. unfold gds_export_lib_with, X.export_lib_gen. rewrite gds_export_cells_with_sorted. reflexivity. Qed.

Section GdsExport.
Variable cfg : X.xcfg.
Variables ord1 ord2 : shapemap -> shapemap.
Hypothesis Hord : forall m1 m2, map_permuted m1 m2 -> ord1 m1 = ord2 m2.

Lemma gds_export_instance_permuted : forall cells1 cells2 i, Forall2 cell_permuted cells1 cells2 ->
  X.export_instance cells1 i = X.export_instance cells2 i.
Proof.
  intros cells1 cells2 i HF. unfold X.export_instance.
  pose proof (Forall2_nth_error_rel HF (i_cell i)) as Hn.
  destruct (nth_error cells1 (i_cell i)) as [c1|], (nth_error cells2 (i_cell i)) as [c2|]; try contradiction; [|reflexivity].
  destruct Hn as [Hname _]. rewrite Hname. reflexivity.
Qed.

Lemma gds_export_layout_permuted : forall ly cells1 cells2 l, Forall2 cell_permuted cells1 cells2 ->
  X.export_layout cfg ly cells1 l = X.export_layout cfg ly cells2 l.
Proof.
  intros ly cells1 cells2 l HF. unfold X.export_layout.
  rewrite (map_ext (X.export_instance cells1) (X.export_instance cells2)); [reflexivity|].
  intros i. apply gds_export_instance_permuted. exact HF.
Qed.

Lemma gds_export_ports_permuted : forall ly ps1 ps2, Forall2 port_permuted ps1 ps2 ->
  map (gds_export_abstract_port_with ord1 cfg ly) ps1 = map (gds_export_abstract_port_with ord2 cfg ly) ps2.
Proof.
  intros ly ps1 ps2 HF. induction HF as [|p1 p2 r1 r2 [Hnet Hm] HF IH]; cbn [map]; [reflexivity|].
  rewrite IH. unfold gds_export_abstract_port_with. rewrite (Hord Hm), Hnet. reflexivity.
Qed.

Lemma gds_export_abstract_permuted : forall ly a1 a2, abs_permuted a1 a2 ->
  gds_export_abstract_with ord1 cfg ly a1 = gds_export_abstract_with ord2 cfg ly a2.
Proof.
  intros ly a1 a2 [Hname [Hout [Hports _]]]. unfold gds_export_abstract_with.
  rewrite (gds_export_ports_permuted ly Hports), Hname, Hout. reflexivity.
Qed.

Lemma gds_export_cell_permuted : forall ly cells1 cells2 c1 c2,
  Forall2 cell_permuted cells1 cells2 -> cell_permuted c1 c2 ->
  gds_export_cell_with ord1 cfg ly cells1 c1 = gds_export_cell_with ord2 cfg ly cells2 c2.
Proof.
  intros ly cells1 cells2 c1 c2 HF [Hname [Hlay Habs]]. unfold gds_export_cell_with. rewrite Hlay.
  destruct (c_layout c2) as [l|]; [rewrite (gds_export_layout_permuted ly l HF); reflexivity|].
  unfold oabs_permuted in Habs. destruct (c_abs c1) as [a1|], (c_abs c2) as [a2|]; try contradiction; [|reflexivity].
  rewrite (gds_export_abstract_permuted ly Habs). reflexivity.
Qed.

Lemma gds_export_cells_permuted : forall ly cells1 cells2 todo1 todo2,
  Forall2 cell_permuted cells1 cells2 -> Forall2 cell_permuted todo1 todo2 ->
  gds_export_cells_with ord1 cfg ly cells1 todo1 = gds_export_cells_with ord2 cfg ly cells2 todo2.
Proof.
  intros ly cells1 cells2 todo1 todo2 HF HT. induction HT as [|c1 c2 r1 r2 Hc HT IH]; cbn [gds_export_cells_with]; [reflexivity|].
  rewrite IH, (gds_export_cell_permuted ly HF Hc). reflexivity.
Qed.

Lemma gds_export_lib_with_permuted : forall L1 L2, lib_maps_permuted L1 L2 ->
  gds_export_lib_with ord1 cfg L1 = gds_export_lib_with ord2 cfg L2.
Proof.
  intros L1 L2 [Hname [Hu [Hly HF]]]. unfold gds_export_lib_with.
  rewrite Hly, (gds_export_cells_permuted (lib_layers L2) HF HF), Hname, Hu. reflexivity.
Qed.
End GdsExport.

Theorem gds_export_order_independent : forall cfg L1 L2, lib_maps_permuted L1 L2 ->
  X.export_lib_gen cfg L1 = X.export_lib_gen cfg L2.
Proof.
  intros cfg L1 L2 H. rewrite <- !gds_export_lib_with_sorted. apply gds_export_lib_with_permuted; [|exact H].
  intros m1 m2 [Hnd Hp]. rewrite X_sorted_by_layer_eq. apply sorted_by_layer_order_irrelevant; assumption.
Qed.

Theorem gds_export_any_hash_order : forall cfg h1 h2 L, perm_oracle h1 -> perm_oracle h2 -> lib_maps_wf L ->
  gds_export_lib_with (fun m => X.sorted_by_layer (h1 m)) cfg L = gds_export_lib_with (fun m => X.sorted_by_layer (h2 m)) cfg L.
Proof.
  intros cfg h1 h2 L H1 H2 Hwf. apply gds_export_lib_with_permuted; [|exact Hwf].
  rewrite X_sorted_by_layer_eq. apply sorted_after_hash_order; assumption.
Qed.

Theorem gds_export_map_order_refuted :
  exists L1 L2 G1 G2, lib_maps_permuted L1 L2 /\
    gds_export_lib_with (fun m => m) X.xcfg_fixed L1 = Ok G1 /\
    gds_export_lib_with (fun m => m) X.xcfg_fixed L2 = Ok G2 /\ G1 <> G2.
Proof.
  exists (w_lib w_m12), (w_lib w_m21). eexists. eexists.
  split; [exact w_permuted|]. split; [vm_compute; reflexivity|]. split; [vm_compute; reflexivity|]. discriminate.
Qed.

(** * 7. Dates: the model of the GDSII exporter has no clock; every date field is the constant [zero_dates] *)
Definition gds_dates_zero (g : G.library) : Prop :=
  G.l_dates g = X.zero_dates /\ Forall (fun s => G.s_dates s = X.zero_dates) (G.l_structs g).

Lemma xobind_ok : forall (A B : Type) (x : X.res A) (f : A -> X.res B) b,
  obind x f = Ok b -> exists a, x = Ok a /\ f a = Ok b.
Proof. intros A B [a|e| |] f b H; cbn [obind] in H; try discriminate. eauto. Qed.

Lemma export_cell_dates : forall cfg ly cells c s, X.export_cell cfg ly cells c = Ok (Some s) -> G.s_dates s = X.zero_dates.
Proof.
  intros cfg ly cells c s H. unfold X.export_cell in H. destruct (c_layout c) as [l|].
  - apply xobind_ok in H. destruct H as [s' [Hs H]]. inversion H; subst s'. clear H.
    unfold X.export_layout in Hs. apply xobind_ok in Hs. destruct Hs as [is [_ Hs]].
    apply xobind_ok in Hs. destruct Hs as [es [_ Hs]]. inversion Hs. reflexivity.
  - destruct (c_abs c) as [a|]; [|discriminate].
    apply xobind_ok in H. destruct H as [s' [Hs H]]. inversion H; subst s'. clear H.
    unfold X.export_abstract in Hs. apply xobind_ok in Hs. destruct Hs as [xy [_ Hs]].
    destruct (ab_outline a) as [|p0 r]; [discriminate|].
    apply xobind_ok in Hs. destruct Hs as [q0 [_ Hs]]. apply xobind_ok in Hs. destruct Hs as [ps [_ Hs]].
    inversion Hs. reflexivity.
Qed.

Lemma export_cells_dates : forall cfg ly cells todo ss, X.export_cells cfg ly cells todo = Ok ss ->
  Forall (fun s => G.s_dates s = X.zero_dates) ss.
Proof.
  intros cfg ly cells. induction todo as [|c r IH]; intros ss H; cbn [X.export_cells] in H.
  - inversion H. constructor.
  - apply xobind_ok in H. destruct H as [s [Hs H]]. apply xobind_ok in H. destruct H as [ss' [Hss H]].
    inversion H; subst ss; clear H. specialize (IH _ Hss). destruct s as [x|]; [|exact IH].
    constructor; [|exact IH]. eapply export_cell_dates; exact Hs.
Qed.

Theorem gds_export_dates_constant : forall cfg L g, X.export_lib_gen cfg L = Ok g -> gds_dates_zero g.
Proof.
  intros cfg L g H. unfold X.export_lib_gen in H. apply xobind_ok in H. destruct H as [ss [Hss H]].
  inversion H; subst g; clear H. split; [reflexivity|]. cbn [G.l_structs]. eapply export_cells_dates; exact Hss.
Qed.

(** * 8. The protobuf importer builds maps: what it returns satisfies [lib_maps_wf] *)
Lemma gobind_ok : forall (E A B : Type) (x : outcome E A) (f : A -> outcome E B) b,
  obind x f = Ok b -> exists a, x = Ok a /\ f a = Ok b.
Proof. intros E A B [a|e| |] f b H; cbn [obind] in H; try discriminate. eauto. Qed.

Lemma sm_insert_keys_in : forall m k v x, In x (map fst (sm_insert m k v)) -> x = k \/ In x (map fst m).
Proof.
  induction m as [|[k' v'] r IH]; intros k v x H; cbn [sm_insert map fst] in *.
  - destruct H as [<-|[]]. left; reflexivity.
  - destruct (Nat.eqb k k') eqn:E; cbn [map fst] in H.
    + destruct H as [<-|H]; [left; reflexivity|right; right; exact H].
    + destruct H as [<-|H]; [right; left; reflexivity|]. apply IH in H. destruct H as [->|H]; [left; reflexivity|right; right; exact H].
Qed.

Lemma sm_insert_keys_nodup : forall m k v, NoDup (map fst m) -> NoDup (map fst (sm_insert m k v)).
Proof.
  induction m as [|[k' v'] r IH]; intros k v Hnd; cbn [sm_insert map fst] in *.
  - constructor; [intros []|constructor].
  - destruct (Nat.eqb k k') eqn:E; cbn [map fst].
    + apply Nat.eqb_eq in E. subst k'. exact Hnd.
    + inversion Hnd as [|? ? Hni Hnd']; subst. constructor; [|apply IH; exact Hnd'].
      intros Hin. apply sm_insert_keys_in in Hin. destruct Hin as [->|Hin]; [|exact (Hni Hin)].
      rewrite Nat.eqb_refl in E. discriminate.
Qed.

Lemma foldM_inv : forall (S A : Type) (f : S -> A -> P.res S) (I : S -> Prop),
  (forall s x s', I s -> f s x = Ok s' -> I s') ->
  forall l s s', I s -> P.foldM f l s = Ok s' -> I s'.
Proof.
  intros S A f I Hstep. induction l as [|x r IH]; intros s s' Hs H; cbn [P.foldM] in H.
  - inversion H; subst. exact Hs.
  - apply gobind_ok in H. destruct H as [s1 [H1 H]]. eapply IH; [|exact H]. eapply Hstep; eauto.
Qed.

Lemma import_abs_entries_nodup : forall l ly m ly' m',
  P.foldM P.import_abs_entry l (ly, m) = Ok (ly', m') -> NoDup (map fst m) -> NoDup (map fst m').
Proof.
  intros l ly m ly' m' H Hnd.
  apply (foldM_inv P.import_abs_entry (fun st : layers * shapemap => NoDup (map fst (snd st)))) with (l := l) (s := (ly, m)) (s' := (ly', m'));
    [|exact Hnd|exact H].
  intros [ly0 m0] ls s' Hs Hstep. cbn [snd] in *. unfold P.import_abs_entry in Hstep.
  destruct (P.pls_layer ls) as [pl|]; [|discriminate].
  destruct (get_or_insert ly0 (wrap16 (P.pl_number pl)) (wrap16 (P.pl_purpose pl))) as [[ly1 key] pp].
  apply gobind_ok in Hstep. destruct Hstep as [[ly2 shapes] [_ Hstep]]. inversion Hstep; subst s'. cbn [snd].
  apply sm_insert_keys_nodup. exact Hs.
Qed.

Definition map_wf (m : shapemap) : Prop := map_permuted m m.
Lemma map_wf_of_nodup : forall m, NoDup (map fst m) -> map_wf m.
Proof. intros m H. split; [exact H|apply Permutation_refl]. Qed.

Lemma Forall_Forall2_diag : forall (A : Type) (R : A -> A -> Prop) l, Forall (fun x => R x x) l -> Forall2 R l l.
Proof. induction 1; constructor; auto. Qed.
Lemma Forall_snoc : forall (A : Type) (Q : A -> Prop) l x, Forall Q l -> Q x -> Forall Q (l ++ [x]).
Proof. intros A Q l x Hl Hx. apply Forall_app. split; [exact Hl|constructor; [exact Hx|constructor]]. Qed.

Lemma import_abstract_port_wf : forall ly p ly' port,
  P.import_abstract_port ly p = Ok (ly', port) -> port_permuted port port.
Proof.
  intros ly p ly' port H. unfold P.import_abstract_port in H.
  apply gobind_ok in H. destruct H as [[ly1 m] [Hm H]]. inversion H; subst. split; [reflexivity|]. cbn [ap_shapes].
  apply map_wf_of_nodup. eapply import_abs_entries_nodup; [exact Hm|constructor].
Qed.

Lemma import_abstract_wf : forall ly a ly' ab, P.import_abstract ly a = Ok (ly', ab) -> abs_permuted ab ab.
Proof.
  intros ly a ly' ab H. unfold P.import_abstract in H.
  apply gobind_ok in H. destruct H as [[ly1 ports] [Hports H]].
  apply gobind_ok in H. destruct H as [[ly2 blk] [Hblk H]].
  destruct (P.pab_outline a) as [o|]; [|discriminate]. inversion H; subst. clear H.
  unfold abs_permuted; cbn [ab_name ab_outline ab_ports ab_blockages].
  split; [reflexivity|]. split; [reflexivity|]. split.
  - apply Forall_Forall2_diag.
    refine (foldM_inv _ (fun st : layers * list absport => Forall (fun p => port_permuted p p) (snd st)) _ _ _ _ Hports);
      [|constructor].
    intros [ly0 acc] p s' Hs Hstep. cbn [snd] in *.
    apply gobind_ok in Hstep. destruct Hstep as [[ly3 port] [Hp Hstep]]. inversion Hstep; subst s'. cbn [snd].
    apply Forall_snoc; [exact Hs|]. eapply import_abstract_port_wf; exact Hp.
  - apply map_wf_of_nodup. eapply import_abs_entries_nodup; [exact Hblk|constructor].
Qed.

Lemma import_cell_wf : forall ly cm c ly' c', P.import_cell ly cm c = Ok (ly', c') -> cell_permuted c' c'.
Proof.
  intros ly cm c ly' c' H. unfold P.import_cell in H.
  apply gobind_ok in H. destruct H as [[ly1 lay] [_ H]].
  apply gobind_ok in H. destruct H as [[ly2 ab] [Hab H]]. inversion H; subst. clear H.
  split; [reflexivity|]. split; [reflexivity|]. cbn [c_abs].
  destruct (P.pc_abs c) as [a|].
  - apply gobind_ok in Hab. destruct Hab as [[ly3 x] [Hx Hab]]. inversion Hab; subst. cbn [oabs_permuted].
    eapply import_abstract_wf; exact Hx.
  - inversion Hab; subst. exact I.
Qed.

Theorem proto_import_maps_wf : forall ly0 Pm L, P.from_proto ly0 Pm = Ok L -> lib_maps_wf L.
Proof.
  intros ly0 Pm L H. unfold P.from_proto in H.
  apply gobind_ok in H. destruct H as [u [_ H]].
  apply gobind_ok in H. destruct H as [[[ly cm] cells] [Hcells H]]. inversion H; subst. clear H.
  unfold lib_maps_wf, lib_maps_permuted; cbn [lib_name lib_units lib_layers lib_cells].
  split; [reflexivity|]. split; [reflexivity|]. split; [reflexivity|].
  apply Forall_Forall2_diag.
  refine (foldM_inv _ (fun st : layers * P.cellmap * list cell => Forall (fun c => cell_permuted c c) (snd st)) _ _ _ _ Hcells);
    [|constructor].
  intros [[ly1 cm1] cells1] c s' Hs Hstep. cbn [snd] in *. unfold P.import_step in Hstep.
  apply gobind_ok in Hstep. destruct Hstep as [[ly2 c'] [Hc Hstep]]. inversion Hstep; subst s'. cbn [snd].
  apply Forall_snoc; [exact Hs|]. eapply import_cell_wf; exact Hc.
Qed.

(** protobuf -> raw -> protobuf: whatever order the hash maps built by the importer are iterated in *)
Theorem proto_reexport_any_hash_order : forall xrot h ly0 Pm L, perm_oracle h -> P.from_proto ly0 Pm = Ok L ->
  P.to_proto_with xrot (fun m => P.sorted_by_layer (h m)) L = P.to_proto_with xrot P.sorted_by_layer L.
Proof.
  intros xrot h ly0 Pm L Hh HL.
  apply (proto_export_any_hash_order xrot (h1 := h) (h2 := fun m => m) Hh); [intros m; apply Permutation_refl|].
  eapply proto_import_maps_wf; exact HL.
Qed.

(** * 9. Maps that are only looked up: the answer does not depend on the order of the entries *)
Lemma sm_get_in : forall m k v, NoDup (map fst m) -> In (k, v) m -> sm_get m k = Some v.
Proof.
  induction m as [|[k' v'] r IH]; intros k v Hnd Hin; [destruct Hin|]. cbn [sm_get].
  cbn [map fst] in Hnd. inversion Hnd as [|? ? Hni Hnd']; subst.
  destruct Hin as [Heq|Hin].
  - inversion Heq; subst. rewrite Nat.eqb_refl. reflexivity.
  - destruct (Nat.eqb k k') eqn:E; [|apply IH; assumption].
    apply Nat.eqb_eq in E. subst k'. exfalso. apply Hni. apply in_map_iff. exists (k, v). split; [reflexivity|exact Hin].
Qed.
Lemma sm_get_none : forall m k, ~ In k (map fst m) -> sm_get m k = None.
Proof.
  induction m as [|[k' v'] r IH]; intros k Hn; [reflexivity|]. cbn [sm_get]. cbn [map fst] in Hn.
  destruct (Nat.eqb k k') eqn:E; [apply Nat.eqb_eq in E; subst; exfalso; apply Hn; left; reflexivity|].
  apply IH. intros H. apply Hn. right. exact H.
Qed.
Lemma sm_get_some_in : forall m k v, sm_get m k = Some v -> In (k, v) m.
Proof.
  induction m as [|[k' v'] r IH]; intros k v H; [discriminate|]. cbn [sm_get] in H.
  destruct (Nat.eqb k k') eqn:E; [apply Nat.eqb_eq in E; inversion H; subst; left; reflexivity|right; apply IH; exact H].
Qed.

Theorem lookup_order_irrelevant : forall m1 m2 k, map_permuted m1 m2 -> sm_get m1 k = sm_get m2 k.
Proof.
  intros m1 m2 k [Hnd Hp].
  assert (Hnd2 : NoDup (map fst m2)) by (eapply Permutation_NoDup; [apply Permutation_map; exact Hp|exact Hnd]).
  destruct (sm_get m1 k) as [v|] eqn:E.
  - symmetry. apply sm_get_in; [exact Hnd2|]. eapply Permutation_in; [exact Hp|]. apply sm_get_some_in. exact E.
  - destruct (sm_get m2 k) as [v|] eqn:E2; [|reflexivity].
    apply sm_get_some_in in E2. apply Permutation_sym in Hp. eapply Permutation_in in E2; [|exact Hp].
    rewrite (@sm_get_in _ _ _ Hnd E2) in E. discriminate.
Qed.

Local Open Scope string_scope.

(** * 10. Conversion by conversion: the hash-typed names the code touches and what covers each iteration site *)
Inductive conv_kind : Type :=
| SortedIteration     (* iterates a hash map, every time through a sort by key *)
| NoHashIteration.    (* iterates no hash container: hash maps / sets are only inserted into and looked up *)

Record conv_row : Type := mkrow {
  cv_name : string;                   (* the conversion (Rust entry point) *)
  cv_model : string;                  (* its Coq model and whether that takes an order argument *)
  cv_kind : conv_kind;
  cv_hash_names : list string;        (* every hash-typed name the conversion's code touches, with the operations used *)
  cv_fns : list (string * string) }.  (* (file, function): the iteration sites of Gen/HashIterGen.v in these belong to it *)

Definition layer_tables : string :=
  "Layers.nums / Layers.names, Layer.purps / Layer.nums: get, insert, contains_key".

Definition conversions : list conv_row := [
  mkrow "raw -> protobuf (Library::to_proto, ProtoExporter)"
        "Raw/RawProto.v to_proto_with xrot ord: order argument ord for both maps; the tree is ord = sorted_by_layer"
        SortedIteration
        ["Abstract.blockages: iterated, through sorted_by_layer";
         "AbstractPort.shapes: iterated, through sorted_by_layer";
         "export_layout local `layers: HashMap<(i16,i16), Vec<&Element>>`: contains_key, get_mut, insert, get (visited through the Vec `layerorder`)";
         "DepOrder.seen / DepOrder.pending (HashSet<Ptr<Cell>>): contains, insert, remove";
         layer_tables]
        [("layout21raw/src/proto.rs", "export_abstract"); ("layout21raw/src/proto.rs", "export_abstract_blockages");
         ("layout21raw/src/proto.rs", "export_abstract_port")];
  mkrow "raw -> GDSII (Library::to_gds, GdsExporter)"
        "Raw/RawGdsExport.v export_lib_gen cfg: NO order argument (sorted_by_layer is written into export_abstract_port); generalised to gds_export_lib_with ord in Order/Determinism_proofs.v"
        SortedIteration
        ["AbstractPort.shapes: iterated, through sorted_by_layer";
         "Abstract.blockages: not read (blockages are not exported)";
         layer_tables]
        [("layout21raw/src/gds.rs", "export_abstract_port")];
  mkrow "raw -> LEF (LefExporter)"
        "Raw/RawLefExport.v export_with v ord: order argument ord for both maps; the tree is ord = sorted_by_layer (export_gen v)"
        SortedIteration
        ["Abstract.blockages: iterated, through sorted_by_layer";
         "AbstractPort.shapes: iterated, through sorted_by_layer";
         layer_tables]
        [("layout21raw/src/lef.rs", "export_abstract"); ("layout21raw/src/lef.rs", "export_port");
         ("layout21raw/src/lef.rs", "export_layer_shapes")];
  mkrow "protobuf -> raw (Library::from_proto, ProtoImporter)"
        "Raw/RawProto.v from_proto ly0 P: no order argument"
        NoHashIteration
        ["Abstract.blockages / AbstractPort.shapes: insert";
         "ProtoImporter.cell_map (HashMap<String, Ptr<Cell>>): insert, get";
         layer_tables]
        [("layout21raw/src/proto.rs", "import_abstract"); ("layout21raw/src/proto.rs", "import_abstract_port");
         ("layout21raw/src/proto.rs", "import_layout")];
  mkrow "GDSII -> raw (GdsImporter)"
        "Raw/RawGds.v import_lib cfg ly0 g: no order argument"
        NoHashIteration
        ["GdsDepOrder.strukts (HashMap<String, &GdsStruct>): insert, get";
         "GdsDepOrder.seen / pending (HashSet<String>): contains, insert, remove";
         "GdsImporter.cell_map: insert, get";
         "import_layout local `layers: HashMap<i16, Vec<ElementKey>>`: get_mut, insert, get (the Vec bucket is iterated, in push order)";
         layer_tables]
        [];
  mkrow "LEF -> raw (LefImporter)"
        "Raw/RawLef.v import_gen v lib L0: no order argument"
        NoHashIteration
        ["Abstract.blockages / AbstractPort.shapes: entry (extend or insert)";
         layer_tables]
        [("layout21raw/src/lef.rs", "import_pin")];
  mkrow "technology protobuf -> layer table (Layers::from_proto)"
        "Raw/RawLayersProto.v from_proto_with v ord: order argument ord for the local map; the tree is v = SortByKey (read from the source on every run)"
        SortedIteration
        ["local `layers_by_number: HashMap<u64, Layer>`: entry().or_insert, iter() collected and sorted by the map's own key"]
        [("layout21raw/src/proto.rs", "from_proto")];
  mkrow "gridded -> raw (RawExporter)"
        "Tetris/Compile.v compile fx st cells: no order argument"
        NoHashIteration
        ["RawExporter.rawcells (HashMap<Ptr<Cell>, Ptr<raw::Cell>>): insert, get";
         "library DepOrder.seen / pending (HashSet<Ptr<Cell>>): contains, insert, remove";
         "export_port local `shapes`, Abstract.blockages of the produced abstract: insert"]
        [("layout21tetris/src/conv/raw.rs", "export_cell_layer_period")];
  mkrow "gridded <-> protobuf (tetris ProtoExporter / ProtoLibImporter)"
        "Tetris/TProto.v export L, import P: no order argument"
        NoHashIteration
        ["ProtoLibImporter.cell_map: insert, get";
         "DepOrderer.seen / pending (HashSet): contains, insert, remove"]
        [];
  mkrow "shared helper data.rs sorted_by_layer"
        "RawProto.sorted_by_layer = RawGdsExport.sorted_by_layer"
        SortedIteration
        ["parameter `map`: iter() collected, then sort_by_key on the layer key"]
        [("layout21raw/src/data.rs", "sorted_by_layer")]
].

Definition site : Type := (string * string * string * bool)%type.
Definition fn_eqb (a b : string * string) : bool := String.eqb (fst a) (fst b) && String.eqb (snd a) (snd b).
Definition site_fn (s : site) : string * string := let '(f, fn, _, _) := s in (f, fn).
Definition site_sorted (s : site) : bool := let '(_, _, _, b) := s in b.
Definition site_allowed (s : site) : bool := let '(f, fn, e, _) := s in existsb (site_eqb (f, fn, e)) allowed_sites.
Definition row_has (r : conv_row) (s : site) : bool := existsb (fn_eqb (site_fn s)) (cv_fns r).
Definition sites_of (sites : list site) (r : conv_row) : list site := filter (row_has r) sites.

(** a row is right about the sites: a conversion said to iterate no hash container has only sites that are on
    the reviewed list of Vec / slice iterations and none that goes through a sort; a conversion said to iterate
    through a sort has at least one sorted site and nothing that is neither sorted nor reviewed *)
Definition row_ok (sites : list site) (r : conv_row) : bool :=
  match cv_kind r with
  | NoHashIteration => forallb (fun s => negb (site_sorted s) && site_allowed s) (sites_of sites r)
  | SortedIteration => forallb (fun s => site_sorted s || site_allowed s) (sites_of sites r) &&
                       existsb site_sorted (sites_of sites r)
  end.
(** and every site found in the sources belongs to exactly one row *)
Definition site_assigned (s : site) : bool := Nat.eqb (List.length (filter (fun r => row_has r s) conversions)) 1.
Definition table_ok (sites : list site) : bool := forallb (row_ok sites) conversions && forallb site_assigned sites.

(** [table_ok hash_iter_sites = true] is proved in Properties/C20.v (C20_conversion_sites_covered), next to
    C20_hash_iteration_sites, so that this file does not depend on the generated site list. *)

(** * 11. The sort has to be by the map's own key.
    [sorted_iteration_order_irrelevant] needs the SORT keys to be distinct.  `sorted_by_layer` sorts by the map
    key itself.  `Layers::from_proto` after its first repair (/repo commit ff55d4d; model Raw/RawLayersProto.v, variant SortByNum) keyed its map by the technology's
    64-bit layer index but sorted the values by `layernum`, the index truncated to `i16`: two indices that agree
    modulo 2^16 are distinct map keys with one sort key, the (stable) sort leaves them in hash order. *)
Definition sort_by_truncated_key (l : list (Z * Z)) : list (Z * Z) :=
  isort (map (fun e => (wrap16 (fst e), snd e)) l).

Lemma sort_by_truncated_key_refuted :
  exists l1 l2 : list (Z * Z), NoDup (map fst l1) /\ Permutation l1 l2 /\ sort_by_truncated_key l1 <> sort_by_truncated_key l2.
Proof.
  exists [(1, 0); (65537, 1)]%Z, [(65537, 1); (1, 0)]%Z. split; [|split].
  - repeat constructor; cbn; intuition discriminate.
  - apply perm_swap.
  - vm_compute. discriminate.
Qed.
