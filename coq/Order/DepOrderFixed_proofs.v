(** Proofs about the model of the proposed repair (Order/DepOrderFixed.v): it behaves like the
    generic helper, except that it returns the error as soon as it meets a dangling reference. *)
From Coq Require Import ZArith NArith List Bool Lia Arith.
From L21 Require Import Order.DepOrder Order.DepOrderSpec Order.DepOrderCheck Order.DepOrder_proofs
  Order.DepOrderFixed.
Import ListNotations.

Lemma for_each_or_err : forall (S : Type) (p q : S -> N -> res S) (I : S -> Prop) (D : Prop) (l : list N),
  (forall s d s', In d l -> I s -> q s d = Ok s' -> I s') ->
  (forall s d, In d l -> I s -> p s d = q s d \/ (p s d = Err /\ D)) ->
  forall s, I s -> for_each p s l = for_each q s l \/ (for_each p s l = Err /\ D).
Proof.
  intros S p q I D l. induction l as [| d r IH]; intros Hq Hpq s Hs; [left; reflexivity |].
  simpl. destruct (Hpq s d (or_introl eq_refl) Hs) as [E | [E HD]].
  - rewrite E. destruct (q s d) as [s' | | |] eqn:Eq; try (left; reflexivity).
    apply IH.
    + intros s0 d0 s0' Hd0. apply Hq. right. exact Hd0.
    + intros s0 d0 Hd0. apply Hpq. right. exact Hd0.
    + eapply Hq; [left; reflexivity | exact Hs | exact Eq].
  - right. rewrite E. split; [reflexivity | exact HD].
Qed.

Section Fixed.
Variable defined : N -> bool.
Variable deps : N -> list N.
Variable items : list N.

Let D : Prop := dangling defined deps items.

Lemma cpush_push : forall fuel s x,
  Inv deps items s -> reachable deps items x ->
  cpush fuel defined deps s x = push fuel deps s x \/ (cpush fuel defined deps s x = Err /\ D).
Proof.
  induction fuel as [| f IH]; intros s x Hs Hx; [left; reflexivity |].
  cbn [cpush push].
  destruct (mem x (seen s)) eqn:Eseen; [left; reflexivity |].
  destruct (mem x (pending s)) eqn:Epend; [left; reflexivity |].
  apply mem_false in Eseen. apply mem_false in Epend.
  assert (Hxs : ~ In x (stack s)) by (intro H; apply Eseen; apply (inv_seen deps items s Hs); exact H).
  assert (Hins : set_insert x (pending s) = x :: pending s)
    by (unfold set_insert; rewrite (proj2 (mem_false _ _) Epend); reflexivity).
  rewrite Hins.
  set (s1 := mkst (stack s) (seen s) (x :: pending s)).
  assert (Hs1 : Inv deps items s1).
  { destruct Hs as [H1 H2 H3 H4 H5]. constructor; simpl; auto.
    intros y [<- | Hy]; [exact Hxs | apply H4; exact Hy]. }
  assert (Hdeps : forall d, In d (deps x) -> reachable deps items d)
    by (intros d Hd; eapply reachable_edge; eauto).
  destruct (for_each_or_err st (lookup_err defined (cpush f defined deps)) (push f deps) (Inv deps items) D (deps x))
    with (s := s1) as [E | [E HD]].
  - intros s0 d s0' Hd Hs0 Hp0. apply (push_ok deps items f s0 d s0' Hs0 (Hdeps d Hd) Hp0).
  - intros s0 d Hd Hs0. unfold lookup_err. destruct (defined d) eqn:Ed.
    + apply IH; [exact Hs0 | apply Hdeps; exact Hd].
    + right. split; [reflexivity |]. exists x, d. auto.
  - exact Hs1.
  - rewrite E. destruct (for_each (push f deps) s1 (deps x)) as [s2 | | |] eqn:Ef; try (left; reflexivity).
    destruct (push_all_ok deps items f (deps x) s1 s2 Hdeps Hs1 Ef) as (_ & [HP2 _] & _).
    assert (Hm : mem x (pending s2) = true) by (apply mem_In; rewrite HP2; left; reflexivity).
    rewrite Hm. left. reflexivity.
  - right. rewrite E. split; [reflexivity | exact HD].
Qed.

Theorem order_checked_pending : forall fuel,
  order_checked fuel defined deps items = order_pending fuel deps items \/
  (order_checked fuel defined deps items = Err /\ D).
Proof.
  intro fuel. unfold order_checked, order_pending.
  destruct (for_each_or_err st (cpush fuel defined deps) (push fuel deps) (Inv deps items) D items)
    with (s := mkst [] [] []) as [E | [E HD]].
  - intros s0 d s0' Hd Hs0 Hp0. apply (push_ok deps items fuel s0 d s0' Hs0 (reachable_root deps items d Hd) Hp0).
  - intros s0 d Hd Hs0. apply cpush_push; [exact Hs0 | apply reachable_root; exact Hd].
  - apply Inv_init.
  - left. rewrite E. reflexivity.
  - right. rewrite E. split; [reflexivity | exact HD].
Qed.

(** every stacked item had all its references resolved *)
Definition alldef (y : N) : Prop := forall d, In d (deps y) -> defined d = true.

Lemma cpush_def : forall fuel s x s',
  (forall y, In y (stack s) -> alldef y) -> cpush fuel defined deps s x = Ok s' ->
  forall y, In y (stack s') -> alldef y.
Proof.
  induction fuel as [| f IH]; intros s x s' Hs Hp; simpl in Hp; [discriminate |].
  destruct (mem x (seen s)); [injection Hp as <-; exact Hs |].
  destruct (mem x (pending s)); [discriminate |].
  match type of Hp with context [for_each ?p ?s1 ?l] => destruct (for_each p s1 l) as [s2 | | |] eqn:Ef end;
    try discriminate.
  injection Hp as <-.
  destruct (for_each_ok st (lookup_err defined (cpush f defined deps)) (fun s => forall y, In y (stack s) -> alldef y)
              (fun _ _ => True) (fun d _ => defined d = true) (deps x)) with (s' := s2)
              (s := mkst (stack s) (seen s) (set_insert x (pending s))) as (Hs2 & _ & HD2); auto.
  - intros s0 d s0' Hd Hs0 Hp0. unfold lookup_err in Hp0. destruct (defined d) eqn:Ed; [| discriminate].
    split; [eapply IH; eauto | auto].
  - cbn [stack]. intros y Hy. apply in_app_or in Hy. destruct Hy as [Hy | [<- | []]]; [apply Hs2; exact Hy |].
    intros d Hd. apply HD2. exact Hd.
Qed.

Lemma order_checked_def : forall fuel out,
  order_checked fuel defined deps items = Ok out -> forall y, In y out -> alldef y.
Proof.
  intros fuel out H. unfold order_checked in H.
  destruct (for_each (cpush fuel defined deps) (mkst [] [] []) items) as [s | | |] eqn:Ef; try discriminate.
  injection H as <-.
  destruct (for_each_ok st (cpush fuel defined deps) (fun s => forall y, In y (stack s) -> alldef y)
              (fun _ _ => True) (fun _ _ => True) items) with (s' := s) (s := mkst [] [] []) as (Hs & _ & _); auto.
  - intros s0 d s0' Hd Hs0 Hp0. split; [eapply cpush_def; eauto | auto].
  - intros y [].
Qed.

Theorem order_checked_sound : forall fuel out,
  order_checked fuel defined deps items = Ok out ->
  topo_ok deps items out /\ ~ cyclic deps items /\ ~ dangling defined deps items.
Proof.
  intros fuel out H.
  assert (Ht : topo_ok deps items out).
  { destruct (order_checked_pending fuel) as [E | [E _]]; [| rewrite E in H; discriminate].
    rewrite E in H. eapply order_pending_sound; eauto. }
  split; [exact Ht |]. split; [eapply topo_ok_acyclic; eauto |].
  intros (x & d & Hx & Hd & Hdef). destruct Ht as (_ & Hin & _).
  rewrite (order_checked_def fuel out H x (proj2 (Hin x) Hx) d Hd) in Hdef. discriminate.
Qed.

Theorem order_checked_no_panic : forall fuel, order_checked fuel defined deps items <> Panic.
Proof.
  intros fuel H. destruct (order_checked_pending fuel) as [E | [E _]]; rewrite E in H; [| discriminate].
  exact (order_pending_no_panic deps items fuel H).
Qed.

Theorem order_checked_err : forall fuel,
  order_checked fuel defined deps items <> OutOfFuel ->
  (order_checked fuel defined deps items = Err <-> cyclic deps items \/ dangling defined deps items).
Proof.
  intros fuel Hfuel. split.
  - intro H. destruct (order_checked_pending fuel) as [E | [_ HD]]; [| right; exact HD].
    left. rewrite E in H. eapply order_pending_err_cyclic; eauto.
  - intro Hc. destruct (order_checked fuel defined deps items) as [out | | |] eqn:E.
    + exfalso. destruct (order_checked_sound fuel out E) as (_ & H1 & H2). destruct Hc; auto.
    + reflexivity.
    + exfalso. exact (order_checked_no_panic fuel E).
    + exfalso. apply Hfuel. reflexivity.
Qed.

Theorem order_checked_bounded : forall nodes fuel,
  (forall x, reachable deps items x -> In x nodes) -> (length nodes < fuel)%nat ->
  order_checked fuel defined deps items <> OutOfFuel.
Proof.
  intros nodes fuel Hn Hlen H. destruct (order_checked_pending fuel) as [E | [E _]]; rewrite E in H; [| discriminate].
  exact (order_pending_bounded deps items nodes Hn fuel Hlen H).
Qed.

Theorem order_checked_total : forall nodes,
  (forall x, reachable deps items x -> In x nodes) ->
  let r := order_checked (S (length nodes)) defined deps items in
  ((cyclic deps items \/ dangling defined deps items) /\ r = Err) \/
  (~ cyclic deps items /\ ~ dangling defined deps items /\ exists out, r = Ok out /\ topo_ok deps items out).
Proof.
  intros nodes Hn r.
  assert (Hf : r <> OutOfFuel) by (apply (order_checked_bounded nodes); [exact Hn | apply Nat.lt_succ_diag_r]).
  pose proof (order_checked_err _ Hf) as Hc. fold r in Hc.
  destruct r as [out | | |] eqn:E.
  - right. destruct (order_checked_sound _ out E) as (H1 & H2 & H3). split; [exact H2 |]. split; [exact H3 |].
    exists out. auto.
  - left. split; [apply Hc; reflexivity | reflexivity].
  - exfalso. exact (order_checked_no_panic _ E).
  - exfalso. apply Hf. reflexivity.
Qed.
End Fixed.
