(** Tie (a) of DESIGN.md 2.3 for the generic dependency-ordering helper (family "order_generic", property C17; also the
    orderer of C09's placer and of C19's proto exporter): the definitions generated from layout21utils/src/dep_order.rs
    `DepOrderer::push` and `DepOrderer::order` (Gen/KernelsOrderGen.v) -- the `seen` test, the `pending` test with
    `P::fail()`, `pending.insert`, `P::process(item, self)?`, the `pending.remove` test, `seen.insert`, `stack.push` --
    read with the models' list sets and outcomes ([od_xops], [set_N], Order/KernelsInstOrder.v) EQUAL [push] /
    [order_pending] of Order/DepOrder.v.

    `push` recurses through `P::process`, which is a function of the trait parameter: the generated `push` takes it as
    an argument.  [tie_order_push_body] is the body for ANY processing function; [tie_order_push_step] puts the model at
    fuel f there (`process` = push every dependency) and obtains the model at fuel S f; [tie_order_push] iterates the
    generated body on the model's fuel and obtains the model's [push] itself; [tie_order_order] does the same for
    `order`.  That `process` of PlaceOrder / CellOrder IS "push every dependency" is tied to their sources in
    Tetris/KernelsTieOrderTetris_proofs.v. *)
From Coq Require Import ZArith NArith Bool List.
From L21 Require Import Base.KernelOps Base.KernelOpsX Base.KernelOpsS Order.DepOrder Order.DepOrderFixed Order.KernelsInstOrder.
From L21 Require Import Gen.KernelsOrderGen.
Import ListNotations.
Import OG.

Ltac gsimp := cbn [Gst unG stack seen pending gDepOrderer_stack gDepOrderer_seen gDepOrderer_pending set_N ks_contains ks_insert ks_remove ks_empty
       od_xops kx_base od_kops k_bind k_ret k_fail od_bind od_ret od_err rmap negb].

Lemma unG_Gst : forall s, unG (Gst s) = s.
Proof. intros [a b c]. reflexivity. Qed.
Lemma Gst_unG : forall o, Gst (unG o) = o.
Proof. intros [a b c]. reflexivity. Qed.

(** the body of `push`, the processing of the item given as [proc] on model states *)
Lemma tie_order_push_body : forall (proc : N -> st -> res st) s item,
  g_push (fun it o => rmap Gst (proc it (unG o))) (Gst s) item
  = rmap Gst
      (if mem item (seen s) then Ok s
       else if mem item (pending s) then Err
       else match proc item (mkst (stack s) (seen s) (set_insert item (pending s))) with
            | Ok s2 => if mem item (pending s2)
                       then Ok (mkst (stack s2 ++ [item]) (set_insert item (seen s2)) (set_remove item (pending s2)))
                       else Err
            | e => e
            end).
Proof.
  intros proc [stk sn pd] item. unfold g_push, g_DepOrderer_push. gsimp.
  destruct (mem item sn); gsimp; [reflexivity|].
  destruct (mem item pd); [reflexivity|].
  destruct (proc item _) as [[stk2 sn2 pd2]| | |]; gsimp; try reflexivity.
  destruct (mem item pd2); reflexivity.
Qed.

(** ONE STEP: the generated body with the recursive processing read as the model at fuel f is the model at fuel S f *)
Lemma tie_order_push_step : forall f deps s item,
  g_push (fun it o => rmap Gst (for_each (push f deps) (unG o) (deps it))) (Gst s) item = rmap Gst (push (S f) deps s item).
Proof.
  intros f deps s item. rewrite (tie_order_push_body (fun it s' => for_each (push f deps) s' (deps it))).
  destruct s as [stk sn pd]. reflexivity.
Qed.

Lemma for_each_G : forall (p : st -> N -> res st) (q : gst -> N -> res gst),
  (forall s x, q (Gst s) x = rmap Gst (p s x)) ->
  forall l s, for_each q (Gst s) l = rmap Gst (for_each p s l).
Proof.
  intros p q H. induction l as [|x r IH]; intros s; [reflexivity|].
  cbn [for_each]. rewrite H. destruct (p s x); cbn [rmap]; auto.
Qed.

Lemma g_push_ext : forall p1 p2, (forall it o, p1 it o = p2 it o) -> forall o item, g_push p1 o item = g_push p2 o item.
Proof.
  intros p1 p2 H [stk sn pd] item. unfold g_push, g_DepOrderer_push. gsimp.
  destruct (mem item sn); gsimp; [reflexivity|]. destruct (mem item pd); [reflexivity|]. rewrite H. reflexivity.
Qed.

(** the WHOLE function: the generated body iterated on the model's fuel is the model *)
Lemma tie_order_push : forall fuel deps s item,
  g_push_fuel fuel deps (Gst s) item = rmap Gst (push fuel deps s item).
Proof.
  induction fuel as [|f IH]; intros deps s item; [reflexivity|].
  cbn [g_push_fuel]. rewrite <- tie_order_push_step. apply g_push_ext. intros it o. unfold proc_of.
  rewrite <- (Gst_unG o) at 1. apply for_each_G. intros s' x. apply IH.
Qed.

Lemma g_order_as_for_each : forall proc items,
  g_order proc items = match for_each (g_push proc) (Gst (mkst [] [] [])) items with
                       | Ok o => Ok (gDepOrderer_stack N set_N o) | Err => Err | Panic => Panic | OutOfFuel => OutOfFuel end.
Proof.
  intros proc items. unfold g_order, g_DepOrderer_order. gsimp.
  change (mk_gDepOrderer N set_N [] [] []) with (Gst (mkst [] [] [])).
  generalize (Gst (mkst [] [] [])). induction items as [|x r IH]; intros o; [reflexivity|].
  cbn [k_foreach for_each]. unfold g_DepOrderer_order_loop1. fold (g_push proc o x). gsimp.
  destruct (g_push proc o x) as [o'| | |]; gsimp; try reflexivity. apply IH.
Qed.

(** `DepOrderer::order` *)
Lemma tie_order_order : forall fuel deps items, g_order_fuel fuel deps items = order_pending fuel deps items.
Proof.
  intros [|f] deps items.
  - destruct items; reflexivity.
  - cbn [g_order_fuel]. rewrite g_order_as_for_each. unfold order_pending.
    rewrite (for_each_G (push (S f) deps) (g_push (proc_of (g_push_fuel f deps) deps))).
    + destruct (for_each (push (S f) deps) _ items) as [[a b c]| | |]; reflexivity.
    + intros s x. apply (tie_order_push (S f)).
Qed.
