(** C20 -- the reviewed list of iteration sites that do NOT go through a sort by key, with the reason each
    one cannot make a conversion's result depend on hash-map iteration order.  The sites themselves are
    re-read from the Rust sources on every run (Gen/HashIterGen.v, tools/translate_hash_iter.py); a site
    that is neither sorted nor listed here fails [sites_ok] and with it theorem C20_hash_iteration_sites.
    Every entry below is an iteration over a [Vec] / slice / prost `repeated` field that merely shares
    its NAME with a hash-typed field somewhere in the scanned crates (the translator matches names, not
    types); none iterates a hash container. *)
From Coq Require Import String List Bool.
Import ListNotations.
Local Open Scope string_scope.

Definition allowed_sites : list (string * string * string) := [
  (* `shapes` is the Vec<Shape> bound by `for (layerkey, shapes) in sorted_by_layer(..)` *)
  ("layout21raw/src/gds.rs", "export_abstract_port", "shapes.iter()");
  (* parameter `shapes: &Vec<Shape>` *)
  ("layout21raw/src/lef.rs", "export_layer_shapes", "forinshapes");
  (* lef21::LefPort.layers : Vec<LefLayerGeometries> *)
  ("layout21raw/src/lef.rs", "import_pin", "forinport.layers");
  (* parameter `shapes: &[Shape]` *)
  ("layout21raw/src/proto.rs", "export_abstract_blockages", "shapes.iter()");
  (* `shapes` bound by the loop over sorted_by_layer(&port.shapes) *)
  ("layout21raw/src/proto.rs", "export_abstract_port", "shapes.iter()");
  (* prost `repeated LayerInfo layers` : Vec *)
  ("layout21raw/src/proto.rs", "from_proto", "forinlibrary_pb.layers");
  (* prost `repeated LayerShapes blockages` : Vec *)
  ("layout21raw/src/proto.rs", "import_abstract", "pabs.blockages.iter()");
  (* prost `repeated LayerShapes shapes` : Vec *)
  ("layout21raw/src/proto.rs", "import_abstract_port", "pport.shapes.iter()");
  (* prost `repeated LayerShapes shapes` : Vec *)
  ("layout21raw/src/proto.rs", "import_layout", "forinplayout.shapes");
  (* TempPeriod.blockages : Vec<(PrimPitches, PrimPitches, Ptr<Instance>)> *)
  ("layout21tetris/src/conv/raw.rs", "export_cell_layer_period", "temp_period.blockages.iter()")
].

Definition site_eqb (a b : string * string * string) : bool :=
  let '(a1, a2, a3) := a in let '(b1, b2, b3) := b in
  String.eqb a1 b1 && String.eqb a2 b2 && String.eqb a3 b3.

Definition site_ok (s : string * string * string * bool) : bool :=
  let '(f, fn, e, sorted) := s in sorted || existsb (site_eqb (f, fn, e)) allowed_sites.

Definition sites_ok (l : list (string * string * string * bool)) : bool := forallb site_ok l.

(** every hash-iteration site with its verdict: used to print the offenders when the obligation fails *)
Definition offenders (l : list (string * string * string * bool)) : list (string * string * string * bool) :=
  filter (fun s => negb (site_ok s)) l.
