(** Reading of the generated dependency orderers (Gen/KernelsOrderGen.v: layout21utils `DepOrderer::push / order`;
    Gen/KernelsRawOrderGen.v: layout21raw `DepOrder::push / order`, `GdsDepOrder::get / push / order`) at the level of the
    hand-written models of C17, Order/DepOrder.v ([push], [order_pending]) and Order/DepOrderFixed.v ([cpush],
    [order_checked]):

    - [od_xops]   outcomes = [res] of Order/DepOrder.v (Ok / Err / Panic / OutOfFuel); the orderers do no integer
                  arithmetic (only `items.len()`, a capacity hint that the translation drops), so every arithmetic
                  primitive of this instance is a panic;
    - [set_N]     `HashSet<K>` = the models' list sets: [mem] / [set_insert] / [set_remove] over N;
    - [set_ptr]   the same sets for keys `Ptr<Cell>` (the generated code has pointers as [kptr] = nat, the models number
                  nodes in N: the keys are converted, the carrier is the models' [list N]);
    - [lm_ops]    `HashMap<String, &GdsStruct>` = an association list, the binding inserted last wins;
    - strings (GDSII struct names) = N: a node of the models' graph IS a name;

    and the maps from the models' orderer states ([st]) to the generated records.  The graph of the models
    ([deps : N -> list N]) is READ OFF the data the code walks: the cells behind the pointers ([raw_deps]), the SREF /
    AREF elements of a struct ([struct_deps]).  No proofs in this file. *)
From Coq Require Import ZArith NArith Bool List.
From L21 Require Import Base.KernelOps Base.KernelOpsX Base.KernelOpsS Order.DepOrder Order.DepOrderFixed.
From L21 Require Gen.KernelsOrderGen Gen.KernelsRawOrderGen.
Import ListNotations.

(** * Outcomes and primitive operations *)
Definition od_ret (A : Type) (a : A) : res A := Ok a.
Definition od_bind (A B : Type) (x : res A) (f : A -> res B) : res B :=
  match x with Ok a => f a | Err => Err | Panic => Panic | OutOfFuel => OutOfFuel end.
Definition od_pan (A : Type) : res A := Panic.
Definition od_err (A : Type) : res A := Err.
Definition od_p1 (x : unit) : res unit := Panic.
Definition od_p2 (x y : unit) : res unit := Panic.
Definition od_z2 (_ : ity) (x y : Z) : res Z := Panic.
Definition od_kops : kops res unit Z :=
  {| k_ret := od_ret; k_bind := od_bind; k_panic := od_pan;
     f_zero := tt; f_one := tt; f_lit := fun _ _ => tt;
     f_add := od_p2; f_sub := od_p2; f_mul := od_p2; f_div := od_p2; f_neg := od_p1;
     f_eq := fun _ _ => false; f_lt := fun _ _ => false; f_le := fun _ _ => false;
     KernelOps.f_round := od_p1; f_rem_euclid := od_p2;
     f_to_radians := od_p1; f_sin := od_p1; f_cos := od_p1;
     f_powi := fun _ _ => Panic;
     i_lit := fun z => z; i_minval := ity_min; i_maxval := ity_max;
     i_add := od_z2; i_sub := od_z2; i_mul := od_z2; i_div := od_z2; i_rem := od_z2;
     i_neg := fun _ _ => Panic; i_and := od_z2; i_or := od_z2; i_shl := od_z2; i_shr := od_z2;
     i_min := Z.min; i_max := Z.max; i_eq := Z.eqb; i_lt := Z.ltb; i_le := Z.leb;
     i_cast := fun _ _ _ => Panic; i_try_from := fun _ _ _ => Panic;
     i_to_f := fun _ _ => Panic; f_to_i := fun _ _ => Panic;
     v_len := fun A l => Z.of_nat (length l); v_get := fun A _ _ => Panic;
     k_for := fun Rt St => for_Z od_ret od_bind |}.
Definition od_xops : kxops res unit Z :=
  {| kx_base := od_kops; k_fail := od_err; k_unwrap := fun A x => match x with Err => Panic | y => y end;
     i_try_from_q := fun _ _ _ => Panic; v_set := fun A _ _ _ => Panic; v_insert := fun A _ _ _ => Panic |}.

Definition rmap {A B : Type} (f : A -> B) (x : res A) : res B :=
  match x with Ok a => Ok (f a) | Err => Err | Panic => Panic | OutOfFuel => OutOfFuel end.

(** `HashSet<K>` as the models have it *)
Definition set_N : ksetops N :=
  {| ks_t := list N; ks_empty := []; ks_contains := fun s x => mem x s;
     ks_insert := fun s x => set_insert x s; ks_remove := fun s x => set_remove x s |}.
Definition set_ptr : ksetops kptr :=
  {| ks_t := list N; ks_empty := []; ks_contains := fun s x => mem (N.of_nat x) s;
     ks_insert := fun s x => set_insert (N.of_nat x) s; ks_remove := fun s x => set_remove (N.of_nat x) s |}.

(** * The generic helper (layout21utils/src/dep_order.rs), items = N *)
Module OG.
Import Gen.KernelsOrderGen.
Definition gst : Type := gDepOrderer N set_N unit Z.
Definition Gst (s : st) : gst := mk_gDepOrderer N set_N (stack s) (seen s) (pending s).
Definition unG (o : gst) : st :=
  mkst (gDepOrderer_stack N set_N o) (gDepOrderer_seen N set_N o) (gDepOrderer_pending N set_N o).
(** `DepOrderer::push` with `P::fail()` = the error return and `P::process` = [proc] *)
Definition g_push (proc : N -> gst -> res gst) (o : gst) (item : N) : res gst :=
  g_DepOrderer_push od_xops N set_N Err proc o item.
Definition g_order (proc : N -> gst -> res gst) (items : list N) : res (list N) :=
  g_DepOrderer_order od_xops N set_N Err proc items.
(** `P::process` as PlaceOrder, CellOrder and the harness instance have it: push every dependency, `?` on each
    (tied to the sources of PlaceOrder / CellOrder in Tetris/KernelsTieOrderTetris_proofs.v) *)
Definition proc_of (pushf : gst -> N -> res gst) (deps : N -> list N) (item : N) (o : gst) : res gst :=
  for_each pushf o (deps item).
(** the whole recursive function: the generated body iterated on the models' fuel *)
Fixpoint g_push_fuel (fuel : nat) (deps : N -> list N) (o : gst) (item : N) : res gst :=
  match fuel with
  | O => OutOfFuel
  | S f => g_push (proc_of (g_push_fuel f deps) deps) o item
  end.
Definition g_order_fuel (fuel : nat) (deps : N -> list N) (items : list N) : res (list N) :=
  match fuel with
  | O => match items with [] => Ok [] | _ => OutOfFuel end
  | S f => g_order (proc_of (g_push_fuel f deps) deps) items
  end.
End OG.

(** * layout21raw/src/data.rs DepOrder: cells behind pointers *)
Module OR.
Import Gen.KernelsRawOrderGen.
Definition gst : Type := gDepOrder set_ptr unit Z.
Definition glib : Type := gLibrary unit Z.
Definition Gst (lib : glib) (s : st) : gst :=
  mk_gDepOrder set_ptr lib (map N.to_nat (stack s)) (seen s) (pending s).
Definition unG (o : gst) : st :=
  mkst (map N.of_nat (gDepOrder_stack set_ptr o)) (gDepOrder_seen set_ptr o) (gDepOrder_pending set_ptr o).
(** the heap: what `ptr.read()` gives (lock poisoning is outside the models) *)
Definition heap : Type := kptr -> gCell unit Z.
Definition rd (h : heap) (p : kptr) : res (gCell unit Z) := Ok (h p).
(** the graph the orderer walks: the cells instantiated by a cell's layout, in instance order; none without a layout *)
Definition raw_deps (h : heap) (n : N) : list N :=
  match gCell_layout (h (N.to_nat n)) with
  | Some l => map (fun i => N.of_nat (gInstance_cell i)) (gLayout_insts l)
  | None => []
  end.
Definition g_push (h : heap) (rec : gst -> kptr -> res gst) (o : gst) (p : kptr) : res gst :=
  g_DepOrder_push od_xops set_ptr (rd h) rec o p.
Definition g_order (h : heap) (rec : gst -> kptr -> res gst) (lib : glib) : res (list kptr) :=
  g_DepOrder_order od_xops set_ptr (rd h) rec lib.
(** the recursive call, read as the model at fuel f *)
Definition rec_of (lib : glib) (pushf : st -> N -> res st) (o : gst) (p : kptr) : res gst :=
  rmap (Gst lib) (pushf (unG o) (N.of_nat p)).
End OR.

(** * layout21raw/src/gds.rs GdsDepOrder: structs by name *)
Module OGds.
Import Gen.KernelsRawOrderGen.
Definition gstruct : Type := gGdsStruct N unit Z.
Definition gmap : kmapops N gstruct := lm_ops N.eqb.
Definition gst : Type := gGdsDepOrder N gmap set_N unit Z.
(** the struct table: a struct per name (GDSII struct names are assumed distinct: a node of the models IS a name) *)
Definition table : Type := N -> gstruct.
Definition elem_dep (e : gGdsElement N unit Z) : list N :=
  match e with
  | gGdsElement_GdsStructRef _ x => [gGdsStructRef_name N x]
  | gGdsElement_GdsArrayRef _ x => [gGdsArrayRef_name N x]
  | _ => []
  end.
(** the graph the orderer walks: the names of the SREF / AREF elements of a struct, in element order *)
Definition struct_deps (t : table) (n : N) : list N := flat_map elem_dep (gGdsStruct_elems N (t n)).
Definition Gst (t : table) (m : km_t gmap) (s : st) : gst :=
  mk_gGdsDepOrder N gmap set_N m (map t (stack s)) (seen s) (pending s).
Definition unG (o : gst) : st :=
  mkst (map (gGdsStruct_name N) (gGdsDepOrder_stack N gmap set_N o)) (gGdsDepOrder_seen N gmap set_N o)
       (gGdsDepOrder_pending N gmap set_N o).
(** the map `strukts` holds exactly the defined names *)
Definition map_ok (t : table) (defined : N -> bool) (m : km_t gmap) : Prop :=
  forall n, km_get gmap m n = if defined n then Some (t n) else None.
Definition g_get (o : gst) (name : N) : res gstruct := g_GdsDepOrder_get od_xops N gmap set_N o name.
Definition g_push (rec : gst -> gstruct -> res gst) (o : gst) (s : gstruct) : res gst :=
  g_GdsDepOrder_push od_xops N gmap set_N rec o s.
Definition g_order (rec : gst -> gstruct -> res gst) (structs : list gstruct) : res (list gstruct) :=
  g_GdsDepOrder_order od_xops N gmap set_N rec (mk_gGdsLibrary N structs).
Definition rec_of (t : table) (m : km_t gmap) (pushf : st -> N -> res st) (o : gst) (s : gstruct) : res gst :=
  rmap (Gst t m) (pushf (unG o) (gGdsStruct_name N s)).
End OGds.
