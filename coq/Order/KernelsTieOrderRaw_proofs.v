(** Tie (a) of DESIGN.md 2.3 for the two orderers of layout21raw (family "order_raw", property C17):
    the definitions generated from layout21raw/src/data.rs `DepOrder::push / order` and layout21raw/src/gds.rs
    `GdsDepOrder::get / push / order` (Gen/KernelsRawOrderGen.v), read with the models' list sets and outcomes
    (Order/KernelsInstOrder.v), EQUAL [cpush] / [order_checked] of Order/DepOrderFixed.v (the repaired orderers: pending set,
    error return; for GdsDepOrder with the lookup of a name that can fail).

    Both `push` functions call themselves: the generated definitions take the recursive call as the Section variable
    rec_<Type>_push (open recursion).  [tie_raw_push] / [tie_gds_push] are ONE STEP: with the model at fuel f in the place
    of the recursive call the generated body is the model at fuel S f, for every heap / struct table, the models' graph
    being read off the data the code walks ([raw_deps], [struct_deps]).  [tie_raw_order] / [tie_gds_order] are the entry
    points (for GdsDepOrder: the name map is built by the first loop, [m_of]). *)
From Coq Require Import ZArith NArith Bool List.
From L21 Require Import Base.KernelOps Base.KernelOpsX Base.KernelOpsS Order.DepOrder Order.DepOrderFixed Order.KernelsInstOrder.
From L21 Require Import Gen.KernelsRawOrderGen.
Import ListNotations.

Ltac rsimp := cbn [OR.Gst OR.unG stack seen pending gDepOrder_lib gDepOrder_stack gDepOrder_seen gDepOrder_pending set_ptr ks_contains ks_insert ks_remove ks_empty
       od_xops kx_base od_kops k_bind k_ret k_fail od_bind od_ret od_err rmap negb OR.rd].

Lemma of_to_map : forall l, map N.of_nat (map N.to_nat l) = l.
Proof. induction l as [|x r IH]; [reflexivity|]. cbn [map]. rewrite N2Nat.id, IH. reflexivity. Qed.
Lemma raw_unG_Gst : forall lib s, OR.unG (OR.Gst lib s) = s.
Proof. intros lib [a b c]. unfold OR.unG, OR.Gst. rsimp. rewrite of_to_map. reflexivity. Qed.

(** `for inst in &layout.insts { self.push(&inst.cell)?; }` with the recursive call read as [pushf] *)
Lemma tie_raw_push_loop : forall (h : OR.heap) lib (pushf : st -> N -> res st) insts s,
  k_foreach od_kops insts (fun inst st__ => g_DepOrder_push_loop1 od_xops set_ptr (OR.rec_of lib pushf) inst st__) (OR.Gst lib s)
  = rmap (fun s' => Cont (OR.Gst lib s')) (for_each pushf s (map (fun i => N.of_nat (gInstance_cell i)) insts)).
Proof.
  intros h lib pushf. induction insts as [|i r IH]; intros s; [reflexivity|].
  cbn [k_foreach map for_each]. unfold g_DepOrder_push_loop1 at 1. unfold OR.rec_of at 1. rewrite raw_unG_Gst. rsimp.
  destruct (pushf s (N.of_nat (gInstance_cell i))) as [s'| | |]; rsimp; try reflexivity. apply IH.
Qed.

Lemma for_each_lookup_all : forall (p : st -> N -> res st) l s, for_each (lookup_err all_defined p) s l = for_each p s l.
Proof. intros p. induction l as [|x r IH]; intros s; [reflexivity|]. cbn [for_each]. unfold lookup_err at 1, all_defined. destruct (p s x); auto. Qed.

(** ONE STEP: the generated body of `DepOrder::push` with the recursive call read as the model at fuel f is the model at fuel S f *)
Lemma tie_raw_push : forall h lib f s item,
  OR.g_push h (OR.rec_of lib (cpush f all_defined (OR.raw_deps h))) (OR.Gst lib s) (N.to_nat item)
  = rmap (OR.Gst lib) (cpush (S f) all_defined (OR.raw_deps h) s item).
Proof.
  intros h lib f [stk sn pd] item. unfold OR.g_push, g_DepOrder_push. cbn [cpush]. rsimp. rewrite !N2Nat.id.
  destruct (mem item sn); rsimp; [reflexivity|].
  destruct (mem item pd); [reflexivity|].
  rewrite for_each_lookup_all. unfold OR.raw_deps.
  destruct (gCell_layout (h (N.to_nat item))) as [l|].
  - change (mk_gDepOrder set_ptr lib (map N.to_nat stk) sn (set_insert item pd)) with (OR.Gst lib (mkst stk sn (set_insert item pd))).
    rewrite (tie_raw_push_loop h).
    destruct (for_each _ _ _) as [[stk2 sn2 pd2]| | |]; rsimp; try reflexivity.
    unfold OR.Gst. rsimp. rewrite map_app. reflexivity.
  - cbn [for_each]. rsimp. unfold OR.Gst. rsimp. rewrite map_app. reflexivity.
Qed.

Lemma tie_raw_order_loop : forall h lib rec (pushf : st -> N -> res st),
  (forall s item, OR.g_push h rec (OR.Gst lib s) (N.to_nat item) = rmap (OR.Gst lib) (pushf s item)) ->
  forall items s,
  k_foreach od_kops (map N.to_nat items) (fun cell st__ => g_DepOrder_order_loop1 od_xops set_ptr (OR.rd h) rec cell st__) (OR.Gst lib s)
  = rmap (fun s' => Cont (OR.Gst lib s')) (for_each pushf s items).
Proof.
  intros h lib rec pushf H. induction items as [|x r IH]; intros s; [reflexivity|].
  cbn [map k_foreach for_each]. unfold g_DepOrder_order_loop1 at 1. fold (OR.g_push h rec (OR.Gst lib s) (N.to_nat x)). rewrite H. rsimp.
  destruct (pushf s x) as [s'| | |]; rsimp; try reflexivity. apply IH.
Qed.

(** `DepOrder::order` on the library listing [items] *)
Lemma tie_raw_order : forall h f items,
  OR.g_order h (OR.rec_of (mk_gLibrary (map N.to_nat items)) (cpush f all_defined (OR.raw_deps h))) (mk_gLibrary (map N.to_nat items))
  = rmap (map N.to_nat) (order_checked (S f) all_defined (OR.raw_deps h) items).
Proof.
  intros h f items. unfold OR.g_order, g_DepOrder_order, order_checked. rsimp. cbn [gLibrary_cells].
  set (lib := mk_gLibrary (map N.to_nat items)).
  change (mk_gDepOrder set_ptr lib [] [] []) with (OR.Gst lib (mkst [] [] [])).
  rewrite (tie_raw_order_loop h lib _ (cpush (S f) all_defined (OR.raw_deps h))).
  - destruct (for_each _ _ items) as [[a b c]| | |]; reflexivity.
  - intros s item. apply tie_raw_push.
Qed.

(** * GdsDepOrder *)

Ltac dsimp := cbn [OGds.Gst OGds.unG stack seen pending gGdsDepOrder_strukts gGdsDepOrder_stack gGdsDepOrder_seen gGdsDepOrder_pending set_N
       ks_contains ks_insert ks_remove ks_empty OGds.gmap lm_ops km_get km_insert km_empty
       od_xops kx_base od_kops k_bind k_ret k_fail od_bind od_ret od_err rmap negb].

Definition names_ok (t : OGds.table) : Prop := forall n, gGdsStruct_name N (t n) = n.

Lemma gds_unG_Gst : forall t m s, names_ok t -> OGds.unG (OGds.Gst t m s) = s.
Proof.
  intros t m [a b c] H. unfold OGds.unG, OGds.Gst. dsimp. rewrite map_map.
  rewrite (map_ext _ (fun x => x)) by apply H. rewrite map_id. reflexivity.
Qed.

(** `GdsDepOrder::get`: the struct of that name, an error when there is none *)
Lemma tie_gds_get : forall t defined m s name, OGds.map_ok t defined m ->
  OGds.g_get (OGds.Gst t m s) name = if defined name then Ok (t name) else Err.
Proof.
  intros t defined m s name Hm. unfold OGds.g_get, g_GdsDepOrder_get. cbn [OGds.Gst gGdsDepOrder_strukts]. rewrite Hm.
  destruct (defined name); reflexivity.
Qed.

(** `for elem in &strukt.elems { match elem { GdsStructRef(x) | GdsArrayRef(x) => self.push(self.get(&x.name)?)?, _ => () } }` *)
Lemma tie_gds_push_loop : forall t defined m (pushf : st -> N -> res st), names_ok t -> OGds.map_ok t defined m ->
  forall elems s,
  k_foreach od_kops elems (fun elem st__ => g_GdsDepOrder_push_loop1 od_xops N OGds.gmap set_N (OGds.rec_of t m pushf) elem st__) (OGds.Gst t m s)
  = rmap (fun s' => Cont (OGds.Gst t m s')) (for_each (lookup_err defined pushf) s (flat_map OGds.elem_dep elems)).
Proof.
  intros t defined m pushf Hn Hm. induction elems as [|e r IH]; intros s; [reflexivity|].
  cbn [k_foreach flat_map]. unfold g_GdsDepOrder_push_loop1 at 1.
  destruct e as [o|o|x|x|o|o|o]; cbn [OGds.elem_dep app]; try (dsimp; apply IH).
  - fold (OGds.g_get (OGds.Gst t m s) (gGdsStructRef_name N x)). rewrite (tie_gds_get t defined m s _ Hm).
    cbn [for_each]. unfold lookup_err at 1. destruct (defined (gGdsStructRef_name N x)); dsimp; [|reflexivity].
    unfold OGds.rec_of at 1. rewrite (gds_unG_Gst t m s Hn), Hn.
    destruct (pushf s (gGdsStructRef_name N x)) as [s'| | |]; dsimp; try reflexivity. apply IH.
  - fold (OGds.g_get (OGds.Gst t m s) (gGdsArrayRef_name N x)). rewrite (tie_gds_get t defined m s _ Hm).
    cbn [for_each]. unfold lookup_err at 1. destruct (defined (gGdsArrayRef_name N x)); dsimp; [|reflexivity].
    unfold OGds.rec_of at 1. rewrite (gds_unG_Gst t m s Hn), Hn.
    destruct (pushf s (gGdsArrayRef_name N x)) as [s'| | |]; dsimp; try reflexivity. apply IH.
Qed.

(** ONE STEP: the generated body of `GdsDepOrder::push` with the recursive call read as the model at fuel f is the model at fuel S f *)
Lemma tie_gds_push : forall t defined m f s item, names_ok t -> OGds.map_ok t defined m ->
  OGds.g_push (OGds.rec_of t m (cpush f defined (OGds.struct_deps t))) (OGds.Gst t m s) (t item)
  = rmap (OGds.Gst t m) (cpush (S f) defined (OGds.struct_deps t) s item).
Proof.
  intros t defined m f [stk sn pd] item Hn Hm. unfold OGds.g_push, g_GdsDepOrder_push. cbn [cpush]. dsimp. rewrite !Hn.
  destruct (mem item sn); dsimp; [reflexivity|].
  destruct (mem item pd); [reflexivity|].
  change (mk_gGdsDepOrder N OGds.gmap set_N m (map t stk) sn (set_insert item pd)) with (OGds.Gst t m (mkst stk sn (set_insert item pd))).
  rewrite (tie_gds_push_loop t defined m _ Hn Hm). unfold OGds.struct_deps at 2.
  destruct (for_each _ _ _) as [[stk2 sn2 pd2]| | |]; dsimp; try reflexivity.
  unfold OGds.Gst. dsimp. rewrite map_app. reflexivity.
Qed.

(** the map built by `for s in &gdslib.structs { strukts.insert(s.name.clone(), s); }` *)
Definition m_of (t : OGds.table) (items : list N) : km_t OGds.gmap := fold_left (fun m n => (n, t n) :: m) items [].

Lemma tie_gds_order_map : forall t items, names_ok t ->
  forall m0,
  k_foreach od_kops (map t items) (fun s st__ => g_GdsDepOrder_order_loop1 od_xops N OGds.gmap s st__) m0
  = Ok (Cont (R:=list OGds.gstruct) (fold_left (fun m n => (n, t n) :: m) items m0)).
Proof.
  intros t items Hn. induction items as [|x r IH]; intros m0; [reflexivity|].
  cbn [map k_foreach fold_left]. unfold g_GdsDepOrder_order_loop1 at 1. dsimp. rewrite Hn. apply IH.
Qed.

Lemma m_of_ok_gen : forall (t : OGds.table) items (m0 : list (N * OGds.gstruct)) n,
  lm_get N.eqb (fold_left (fun m x => (x, t x) :: m) items m0) n = if mem n items then Some (t n) else lm_get N.eqb m0 n.
Proof.
  intros t. induction items as [|x r IH]; intros m0 n; [reflexivity|].
  cbn [fold_left]. rewrite IH. unfold mem. cbn [existsb lm_get].
  destruct (existsb (N.eqb n) r); [rewrite orb_true_r; reflexivity|]. rewrite orb_false_r.
  destruct (N.eqb n x) eqn:E; [|reflexivity]. apply N.eqb_eq in E. subst. reflexivity.
Qed.
Lemma m_of_ok : forall t items, OGds.map_ok t (fun n => mem n items) (m_of t items).
Proof. intros t items n. unfold m_of. cbn [km_get OGds.gmap lm_ops]. rewrite m_of_ok_gen. destruct (mem n items); reflexivity. Qed.

Lemma tie_gds_order_loop : forall t m rec (pushf : st -> N -> res st),
  (forall s item, OGds.g_push rec (OGds.Gst t m s) (t item) = rmap (OGds.Gst t m) (pushf s item)) ->
  forall items s,
  k_foreach od_kops (map t items) (fun x st__ => g_GdsDepOrder_order_loop2 od_xops N OGds.gmap set_N rec x st__) (OGds.Gst t m s)
  = rmap (fun s' => Cont (OGds.Gst t m s')) (for_each pushf s items).
Proof.
  intros t m rec pushf H. induction items as [|x r IH]; intros s; [reflexivity|].
  cbn [map k_foreach for_each]. unfold g_GdsDepOrder_order_loop2 at 1. fold (OGds.g_push rec (OGds.Gst t m s) (t x)). rewrite H. dsimp.
  destruct (pushf s x) as [s'| | |]; dsimp; try reflexivity. apply IH.
Qed.

(** `GdsDepOrder::order` on the library whose structs are [map t items]: the map is built, then every struct is pushed *)
Lemma tie_gds_order : forall t f items, names_ok t ->
  OGds.g_order (OGds.rec_of t (m_of t items) (cpush f (fun n => mem n items) (OGds.struct_deps t))) (map t items)
  = rmap (map t) (order_checked (S f) (fun n => mem n items) (OGds.struct_deps t) items).
Proof.
  intros t f items Hn. unfold OGds.g_order, g_GdsDepOrder_order, order_checked. cbn [gGdsLibrary_structs]. dsimp.
  rewrite (tie_gds_order_map t items Hn). dsimp. fold (m_of t items).
  change (mk_gGdsDepOrder N OGds.gmap set_N (m_of t items) [] [] []) with (OGds.Gst t (m_of t items) (mkst [] [] [])).
  rewrite (tie_gds_order_loop t (m_of t items) _ (cpush (S f) (fun n => mem n items) (OGds.struct_deps t))).
  - destruct (for_each _ _ items) as [[a b c]| | |]; reflexivity.
  - intros s item. apply tie_gds_push; [exact Hn | apply m_of_ok].
Qed.
