(** Executable checks used by the correspondence run of C17 (tools/props/c17.py). No proofs
    here; soundness of [topo_okb] and [cycle_walkb] w.r.t. the Prop specification is proved in
    Order/DepOrder_proofs.v.

    A finite graph is an adjacency list [g : list (list N)]: node i (0 <= i < length g) depends
    on [nth i g []]; a number >= length g is a node that "does not exist" (GDSII: an SREF to a
    name no struct carries) and has no dependencies.

    The expected verdict for a graph is obtained by a search ([search]) whose answer is not
    trusted but CERTIFIED: an order is accepted only if [topo_okb] accepts it (then the graph
    is acyclic, lemma topo_ok_acyclic), a cycle only if [cycle_walkb] accepts the walk. *)
From Coq Require Import ZArith NArith List Bool.
From L21 Require Import Order.DepOrder Order.DepOrderFixed.
Import ListNotations.
Local Open Scope N_scope.

Definition deps_of (g : list (list N)) (x : N) : list N := nth (N.to_nat x) g [].
Definition definedb (g : list (list N)) (x : N) : bool := x <? N.of_nat (length g).

(** ** Decidable [topo_ok] *)
Fixpoint nodupb (l : list N) : bool :=
  match l with [] => true | x :: r => negb (mem x r) && nodupb r end.

(** every element's dependencies occur in the part of the list before it ([prefix] = that
    part, as a set) *)
Fixpoint deps_beforeb (deps : N -> list N) (prefix l : list N) : bool :=
  match l with
  | [] => true
  | x :: r => forallb (fun d => mem d prefix) (deps x) && deps_beforeb deps (x :: prefix) r
  end.

(** [l] = the output reversed (users first): every element is a root or a dependency of an
    element met earlier.  [R] = roots and dependencies of the elements met so far. *)
Fixpoint all_reachedb (deps : N -> list N) (R l : list N) : bool :=
  match l with
  | [] => true
  | x :: r => mem x R && all_reachedb deps (deps x ++ R) r
  end.

Definition topo_okb (deps : N -> list N) (items out : list N) : bool :=
  nodupb out && forallb (fun r => mem r out) items &&
  deps_beforeb deps [] out && all_reachedb deps items (rev out).

(** ** Cycle certificate: a walk r = w0 -> w1 -> ... -> wk from a root whose last node
    already occurs earlier in the walk. *)
Fixpoint walkb (deps : N -> list N) (w : list N) : bool :=
  match w with
  | x :: ((y :: _) as r) => mem y (deps x) && walkb deps r
  | _ => true
  end.

Definition cycle_walkb (deps : N -> list N) (items w : list N) : bool :=
  match w with
  | [] => false
  | r :: _ => mem r items && walkb deps w && mem (last w 0) (removelast w)
  end.

(** ** Search (untrusted): depth-first; [path] = the current chain from a root, newest first *)
Inductive sres : Type := SOrder (out : list N) | SCycle (walk : list N) | SFail.

Fixpoint dfs (fuel : nat) (deps : N -> list N) (path done : list N) (x : N) : sres :=
  match fuel with
  | O => SFail
  | S f =>
    if mem x done then SOrder done
    else if mem x path then SCycle (rev (x :: path))
    else
      match (fix go (d : list N) (l : list N) : sres :=
               match l with
               | [] => SOrder d
               | y :: r => match dfs f deps (x :: path) d y with SOrder d' => go d' r | e => e end
               end) done (deps x) with
      | SOrder d => SOrder (d ++ [x])
      | e => e
      end
  end.

Fixpoint dfs_roots (fuel : nat) (deps : N -> list N) (done : list N) (items : list N) : sres :=
  match items with
  | [] => SOrder done
  | r :: rest => match dfs fuel deps [] done r with SOrder d => dfs_roots fuel deps d rest | e => e end
  end.

Definition search (fuel : nat) (deps : N -> list N) (items : list N) : sres :=
  dfs_roots fuel deps [] items.

(** certified classification *)
Inductive cls : Type := Acyclic (reach_order : list N) | Cyclic | Undecided.

Definition classify (fuel : nat) (deps : N -> list N) (items : list N) : cls :=
  match search fuel deps items with
  | SOrder o => if topo_okb deps items o then Acyclic o else Undecided
  | SCycle w => if cycle_walkb deps items w then Cyclic else Undecided
  | SFail => Undecided
  end.

(** some item of [l] refers to a node that does not exist *)
Definition danglingb (defined : N -> bool) (deps : N -> list N) (l : list N) : bool :=
  existsb (fun x => existsb (fun d => negb (defined d)) (deps x)) l.

(** ** The check.
    kind: 0 = generic helper (order_pending); 1 = hand-rolled orderer over pointers
    (order_nopending, every reference resolves); 2 = GdsDepOrder (order_nopending, a reference
    resolves iff it is < length g); 3, 4 = the REPAIRED forms of 1, 2 (Order/DepOrderFixed.v),
    used only when the source carries the repair.
    rc/out = what the implementation did: 0 = returned the order [out]; 1 = returned an error;
    2 = the process died (stack overflow / abort / hang); 3 = panic.
    Result: 0 = impl equals model and the property holds; 1 = impl differs from the model but the
    property holds; 2 = the property fails on the impl's behaviour; 3 = the checker could not
    classify the graph (never expected). *)
Fixpoint list_eqb (a b : list N) : bool :=
  match a, b with
  | [], [] => true
  | x :: a', y :: b' => N.eqb x y && list_eqb a' b'
  | _, _ => false
  end.

Definition check_fuel (g : list (list N)) : nat := S (S (length g + length (concat g))).

Definition model_run (kind : Z) (g : list (list N)) (items : list N) : res (list N) :=
  let deps := deps_of g in
  let fuel := check_fuel g in
  if (kind =? 0)%Z then order_pending fuel deps items
  else if (kind =? 1)%Z then order_nopending fuel all_defined deps items
  else if (kind =? 2)%Z then order_nopending fuel (definedb g) deps items
  else if (kind =? 3)%Z then order_checked fuel all_defined deps items
  else order_checked fuel (definedb g) deps items.

Definition model_agrees (m : res (list N)) (rc : Z) (out : list N) : bool :=
  match m with
  | Ok o => (rc =? 0)%Z && list_eqb o out
  | Err => (rc =? 1)%Z
  | OutOfFuel => (rc =? 2)%Z
  | Panic => (rc =? 3)%Z
  end.

(** the GDSII orderers: references are names and may dangle *)
Definition gds_kind (kind : Z) : bool := (kind =? 2)%Z || (kind =? 4)%Z.

(** what the property demands: 0 = an order, 1 = an error *)
Definition expected (kind : Z) (g : list (list N)) (items : list N) : option Z :=
  let deps := deps_of g in
  match classify (check_fuel g) deps items with
  | Cyclic => Some 1%Z
  | Acyclic o =>
    if gds_kind kind && danglingb (definedb g) deps o then Some 1%Z else Some 0%Z
  | Undecided => None
  end.

Definition c17_check (kind : Z) (g : list (list N)) (items : list N) (rc : Z) (out : list N) : Z :=
  let deps := deps_of g in
  match expected kind g items with
  | None => 3%Z
  | Some want =>
    let prop_ok :=
      if (want =? 1)%Z then (rc =? 1)%Z
      else (rc =? 0)%Z && topo_okb deps items out in
    if negb prop_ok then 2%Z
    else if model_agrees (model_run kind g items) rc out then 0%Z else 1%Z
  end.

(** does the model predict the implementation's behaviour (also evaluated on violating cases:
    OutOfFuel <-> the process died, Panic <-> panic) *)
Definition c17_agree (kind : Z) (g : list (list N)) (items : list N) (rc : Z) (out : list N) : Z :=
  if model_agrees (model_run kind g items) rc out then 1%Z else 0%Z.

(** Compact form for the exhaustive enumerations: the digraph on nodes 0..n-1 whose edge
    i -> j is present iff bit (i*n + j) of [mask] is set. *)
Definition graph_of_mask (n mask : N) : list (list N) :=
  let ids := map N.of_nat (seq 0 (N.to_nat n)) in
  map (fun i => filter (fun j => N.testbit mask (i * n + j)) ids) ids.

Definition c17_check_mask (kind : Z) (n mask : N) (items : list N) (rc : Z) (out : list N) : Z :=
  c17_check kind (graph_of_mask n mask) items rc out.

(** many cases at once (less vernacular overhead): returns the list of codes *)
Definition c17_check_masks (kind : Z) (n : N) (cases : list (N * list N * Z * list N)) : list Z :=
  map (fun c => match c with (mask, items, rc, out) => c17_check_mask kind n mask items rc out end) cases.
