(** Proofs about the dependency orderers (property C17). *)
From Coq Require Import ZArith NArith List Bool Lia Arith.
From L21 Require Import Order.DepOrder Order.DepOrderSpec Order.DepOrderCheck.
Import ListNotations.

(** * Sets as lists *)
Lemma mem_In : forall x s, mem x s = true <-> In x s.
Proof.
  intros x s. unfold mem. rewrite existsb_exists. split.
  - intros (y & Hy & E). apply N.eqb_eq in E. subst. exact Hy.
  - intro H. exists x. split; [exact H | apply N.eqb_refl].
Qed.

Lemma mem_false : forall x s, mem x s = false <-> ~ In x s.
Proof.
  intros x s. rewrite <- mem_In. destruct (mem x s); split; intro H.
  - discriminate.
  - exfalso. apply H. reflexivity.
  - intro H1. discriminate.
  - reflexivity.
Qed.

Lemma set_insert_In : forall x y s, In y (set_insert x s) <-> y = x \/ In y s.
Proof.
  intros x y s. unfold set_insert. destruct (mem x s) eqn:E.
  - apply mem_In in E. split; [auto | intros [-> | H]; auto].
  - simpl. split; intros [H | H]; auto.
Qed.

Lemma set_remove_notin : forall x s, ~ In x s -> set_remove x s = s.
Proof.
  induction s as [| y r IH]; intro H; simpl; [reflexivity |].
  destruct (N.eqb x y) eqn:E.
  - apply N.eqb_eq in E. subst. exfalso. apply H. left. reflexivity.
  - f_equal. apply IH. intro H1. apply H. right. exact H1.
Qed.

Lemma set_remove_head : forall x s, ~ In x s -> set_remove x (x :: s) = s.
Proof. intros x s H. simpl. rewrite N.eqb_refl. apply set_remove_notin. exact H. Qed.

(** * Reachability *)
Section Graph.
Variable deps : N -> list N.

Lemma reach_trans : forall x y z, reach deps x y -> reach deps y z -> reach deps x z.
Proof.
  intros x y z H. induction H as [x | x d y Hd Hr IH]; intro Hz; [exact Hz |].
  eapply reach_step; [exact Hd | apply IH; exact Hz].
Qed.

Lemma reach_edge_r : forall x y d, reach deps x y -> In d (deps y) -> reach_plus deps x d.
Proof.
  intros x y d H. induction H as [x | x e y He Hr IH]; intro Hd.
  - exists d. split; [exact Hd | apply reach_refl].
  - exists e. split; [exact He |]. destruct (IH Hd) as (e' & He' & Hr').
    eapply reach_step; [exact He' | exact Hr'].
Qed.

Lemma reach_plus_reach : forall x y, reach_plus deps x y -> reach deps x y.
Proof. intros x y (d & Hd & Hr). eapply reach_step; eauto. Qed.

Lemma reach_plus_edge_r : forall x y d, reach_plus deps x y -> In d (deps y) -> reach_plus deps x d.
Proof. intros x y d H Hd. eapply reach_edge_r; [apply reach_plus_reach; exact H | exact Hd]. Qed.

Lemma reachable_edge : forall items x d, reachable deps items x -> In d (deps x) -> reachable deps items d.
Proof.
  intros items x d (r & Hr & Hx) Hd. exists r. split; [exact Hr |].
  apply reach_plus_reach. eapply reach_edge_r; eauto.
Qed.

Lemma reachable_root : forall items x, In x items -> reachable deps items x.
Proof. intros items x H. exists x. split; [exact H | apply reach_refl]. Qed.

Lemma reachable_reach : forall items x y, reachable deps items x -> reach deps x y -> reachable deps items y.
Proof. intros items x y (r & Hr & Hx) Hy. exists r. split; [exact Hr | eapply reach_trans; eauto]. Qed.

(** * Dependencies-first lists.  [deps_first l]: l is newest-first (the reversed output);
    the dependencies of every element occur in the tail after it. *)
Fixpoint deps_first (l : list N) : Prop :=
  match l with
  | [] => True
  | x :: r => (forall d, In d (deps x) -> In d r) /\ deps_first r
  end.

Lemma deps_first_edge : forall l x d, deps_first l -> In x l -> In d (deps x) -> In d l.
Proof.
  induction l as [| a r IH]; intros x d Hf Hx Hd; [destruct Hx |].
  destruct Hf as [Ha Hr]. destruct Hx as [-> | Hx].
  - right. apply Ha. exact Hd.
  - right. eapply IH; eauto.
Qed.

Lemma deps_first_closed : forall l x y, deps_first l -> In x l -> reach deps x y -> In y l.
Proof.
  intros l x y Hf Hx Hr. induction Hr as [x | x d y Hd Hr IH]; [exact Hx |].
  apply IH. eapply deps_first_edge; eauto.
Qed.

Lemma deps_first_plus_tail : forall x r y, deps_first (x :: r) -> reach_plus deps x y -> In y r.
Proof.
  intros x r y [Hx Hr] (d & Hd & Hy). eapply deps_first_closed; [exact Hr | apply Hx; exact Hd | exact Hy].
Qed.

Lemma deps_first_acyclic : forall l x, deps_first l -> In x l -> ~ reach_plus deps x x.
Proof.
  induction l as [| a r IH]; intros x Hf Hx Hc; [destruct Hx |].
  destruct Hx as [-> | Hx].
  - apply (IH x); [apply Hf | eapply deps_first_plus_tail; eauto | exact Hc].
  - apply (IH x); [apply Hf | exact Hx | exact Hc].
Qed.

Lemma snoc_split : forall (o : list N) a l1 x l2,
  o ++ [a] = l1 ++ x :: l2 ->
  (l2 = [] /\ l1 = o /\ x = a) \/ (exists l2', l2 = l2' ++ [a] /\ o = l1 ++ x :: l2').
Proof.
  intros o a l1 x l2 H. destruct (rev l2) as [| z l2r] eqn:E.
  - left. assert (l2 = []) as -> by (rewrite <- (rev_involutive l2), E; reflexivity).
    change (l1 ++ [x]) with (l1 ++ [x]) in H. apply app_inj_tail in H. destruct H as [-> ->]. auto.
  - right. assert (l2 = rev l2r ++ [z]) as -> by (rewrite <- (rev_involutive l2), E; reflexivity).
    change (l1 ++ x :: rev l2r ++ [z]) with (l1 ++ (x :: rev l2r) ++ [z]) in H.
    rewrite app_assoc in H. apply app_inj_tail in H. destruct H as [-> ->].
    exists (rev l2r). split; reflexivity.
Qed.

Lemma deps_first_before : forall out, deps_first (rev out) <-> deps_before deps out.
Proof.
  intro out. induction out as [| a o IH] using rev_ind.
  - split; [| intros _; exact I]. intros _ l1 x l2 H. destruct l1; discriminate.
  - rewrite rev_unit. simpl. split.
    + intros [Ha Ho] l1 x l2 H d Hd. apply snoc_split in H.
      destruct H as [(-> & -> & ->) | (l2' & -> & ->)].
      * apply in_rev. apply Ha. exact Hd.
      * apply IH in Ho. eapply Ho; [reflexivity | exact Hd].
    + intro H. split.
      * intros d Hd. apply in_rev. rewrite rev_involutive. apply (H o a []); [reflexivity | exact Hd].
      * apply IH. intros l1 x l2 E d Hd. apply (H l1 x (l2 ++ [a])); [| exact Hd].
        rewrite E. rewrite <- app_assoc. reflexivity.
Qed.

(** * Consequences of the specification *)
Lemma topo_ok_acyclic : forall items out, topo_ok deps items out -> ~ cyclic deps items.
Proof.
  intros items out (Hnd & Hin & Hb) (x & Hx & Hc).
  apply deps_first_before in Hb. apply Hin in Hx. apply in_rev in Hx.
  exact (deps_first_acyclic _ _ Hb Hx Hc).
Qed.

Lemma topo_ok_before : forall items out x d,
  topo_ok deps items out -> In x out -> In d (deps x) -> before d x out.
Proof.
  intros items out x d (_ & _ & Hb) Hx Hd. apply in_split in Hx. destruct Hx as (l1 & l2 & E).
  exists l1, l2. split; [exact E | eapply Hb; eauto].
Qed.

(** with [NoDup], [before] is the strict position order; the two formulations agree *)
Lemma before_deps_before : forall out,
  NoDup out -> (forall x d, In x out -> In d (deps x) -> before d x out) -> deps_before deps out.
Proof.
  intros out Hnd H l1 x l2 E d Hd.
  assert (Hx : In x out) by (rewrite E; apply in_or_app; right; left; reflexivity).
  destruct (H x d Hx Hd) as (k1 & k2 & E2 & Hin).
  assert (k1 = l1) as <-; [| exact Hin].
  subst out. clear - Hnd E2. revert k1 E2. induction l1 as [| a l1 IH]; intros k1 E2.
  - destruct k1 as [| b k1]; [reflexivity |]. simpl in E2. injection E2 as E3 E4. subst b.
    simpl in Hnd. apply NoDup_cons_iff in Hnd. destruct Hnd as [Hn _].
    exfalso. apply Hn. rewrite E4. apply in_or_app. right. left. reflexivity.
  - simpl in Hnd. apply NoDup_cons_iff in Hnd. destruct Hnd as [Hn Hnd].
    destruct k1 as [| b k1].
    + simpl in E2. injection E2 as E3 E4. subst a.
      exfalso. apply Hn. apply in_or_app. right. left. reflexivity.
    + simpl in E2. injection E2 as E3 E4. subst b. f_equal. apply IH; [exact Hnd | exact E4].
Qed.

(** * Generic rules for [for_each] *)
Lemma for_each_ok : forall (S : Type) (p : S -> N -> res S) (I : S -> Prop) (R : S -> S -> Prop)
    (E : N -> S -> Prop) (l : list N),
  (forall s, R s s) -> (forall a b c, R a b -> R b c -> R a c) ->
  (forall x a b, E x a -> R a b -> E x b) ->
  (forall s x s', In x l -> I s -> p s x = Ok s' -> I s' /\ R s s' /\ E x s') ->
  forall s s', I s -> for_each p s l = Ok s' -> I s' /\ R s s' /\ (forall x, In x l -> E x s').
Proof.
  intros S p I R E l Rrefl Rtrans Emono. induction l as [| x r IH]; intros Hstep s s' Hs Hf; simpl in Hf.
  - injection Hf as <-. split; [exact Hs |]. split; [apply Rrefl |]. intros x [].
  - destruct (p s x) as [s1 | | |] eqn:Ep; try discriminate.
    destruct (Hstep s x s1 (or_introl eq_refl) Hs Ep) as (Hs1 & HR1 & HE1).
    destruct (IH (fun s x s' Hx => Hstep s x s' (or_intror Hx)) s1 s' Hs1 Hf) as (Hs' & HR' & HE').
    split; [exact Hs' |]. split; [eapply Rtrans; eauto |].
    intros y [<- | Hy]; [eapply Emono; eauto | apply HE'; exact Hy].
Qed.

Lemma for_each_not_ok : forall (S : Type) (p : S -> N -> res S) (I : S -> Prop) (R : S -> S -> Prop)
    (l : list N) (e : res S),
  (forall s, R s s) -> (forall a b c, R a b -> R b c -> R a c) ->
  (forall s x s', In x l -> I s -> p s x = Ok s' -> I s' /\ R s s') ->
  (forall a, e <> Ok a) ->
  forall s, I s -> for_each p s l = e -> exists s1 x, In x l /\ I s1 /\ R s s1 /\ p s1 x = e.
Proof.
  intros S p I R l e Rrefl Rtrans. induction l as [| x r IH]; intros Hstep He s Hs Hf; simpl in Hf.
  - exfalso. eapply He. symmetry. exact Hf.
  - destruct (p s x) as [s1 | | |] eqn:Ep.
    + destruct (Hstep s x s1 (or_introl eq_refl) Hs Ep) as (Hs1 & HR1).
      destruct (IH (fun s x s' Hx => Hstep s x s' (or_intror Hx)) He s1 Hs1 Hf) as (s2 & y & Hy & Hs2 & HR2 & Hp).
      exists s2, y. split; [right; exact Hy |]. split; [exact Hs2 |]. split; [eapply Rtrans; eauto | exact Hp].
    + exists s, x. split; [left; reflexivity |]. split; [exact Hs |]. split; [apply Rrefl |]. rewrite Ep. exact Hf.
    + exists s, x. split; [left; reflexivity |]. split; [exact Hs |]. split; [apply Rrefl |]. rewrite Ep. exact Hf.
    + exists s, x. split; [left; reflexivity |]. split; [exact Hs |]. split; [apply Rrefl |]. rewrite Ep. exact Hf.
Qed.

Lemma for_each_sim : forall (S T : Type) (p : S -> N -> res S) (q : T -> N -> res T) (phi : S -> T)
    (l : list N),
  (forall s x s', In x l -> p s x = Ok s' -> q (phi s) x = Ok (phi s')) ->
  forall s s', for_each p s l = Ok s' -> for_each q (phi s) l = Ok (phi s').
Proof.
  intros S T p q phi l. induction l as [| x r IH]; intros Hstep s s' Hf; simpl in *.
  - injection Hf as <-. reflexivity.
  - destruct (p s x) as [s1 | | |] eqn:Ep; try discriminate.
    rewrite (Hstep s x s1 (or_introl eq_refl) Ep).
    apply IH; [| exact Hf]. intros s0 y s0' Hy. apply Hstep. right. exact Hy.
Qed.

(** * The generic helper *)
Section Roots.
Variable items : list N.

Record Inv (s : st) : Prop := {
  inv_nodup : NoDup (stack s);
  inv_seen : forall x, In x (seen s) <-> In x (stack s);
  inv_first : deps_first (rev (stack s));
  inv_pend : forall x, In x (pending s) -> ~ In x (stack s);
  inv_reach : forall x, In x (stack s) -> reachable deps items x
}.

Definition Rel (s s' : st) : Prop := pending s' = pending s /\ incl (stack s) (stack s').
Definition Done (x : N) (s : st) : Prop := In x (stack s).

Lemma Rel_refl : forall s, Rel s s.
Proof. intro s. split; [reflexivity | apply incl_refl]. Qed.
Lemma Rel_trans : forall a b c, Rel a b -> Rel b c -> Rel a c.
Proof. intros a b c [H1 H2] [H3 H4]. split; [congruence | eapply incl_tran; eauto]. Qed.
Lemma Done_mono : forall x a b, Done x a -> Rel a b -> Done x b.
Proof. intros x a b H [_ H2]. apply H2. exact H. Qed.

Lemma push_ok : forall fuel s x s',
  Inv s -> reachable deps items x -> push fuel deps s x = Ok s' ->
  Inv s' /\ Rel s s' /\ Done x s'.
Proof.
  induction fuel as [| f IH]; intros s x s' Hs Hx Hp; simpl in Hp; [discriminate |].
  destruct (mem x (seen s)) eqn:Eseen.
  { injection Hp as <-. split; [exact Hs |]. split; [apply Rel_refl |].
    apply mem_In in Eseen. apply (inv_seen s Hs). exact Eseen. }
  destruct (mem x (pending s)) eqn:Epend; [discriminate |].
  apply mem_false in Eseen. apply mem_false in Epend.
  assert (Hxs : ~ In x (stack s)) by (intro H; apply Eseen; apply (inv_seen s Hs); exact H).
  assert (Hins : set_insert x (pending s) = x :: pending s)
    by (unfold set_insert; rewrite (proj2 (mem_false _ _) Epend); reflexivity).
  rewrite Hins in Hp.
  set (s1 := mkst (stack s) (seen s) (x :: pending s)) in *.
  assert (Hs1 : Inv s1).
  { destruct Hs as [H1 H2 H3 H4 H5]. constructor; simpl; auto.
    intros y [<- | Hy]; [exact Hxs | apply H4; exact Hy]. }
  destruct (for_each (push f deps) s1 (deps x)) as [s2 | | |] eqn:Ef; try discriminate.
  destruct (for_each_ok st (push f deps) Inv Rel Done (deps x) Rel_refl Rel_trans Done_mono) with (s := s1) (s' := s2)
    as (Hs2 & [HP2 HI2] & HD2); [| exact Hs1 | exact Ef |].
  { intros s0 d s0' Hd Hs0 Hp0. apply (IH s0 d s0' Hs0); [| exact Hp0]. eapply reachable_edge; eauto. }
  unfold s1 in HP2, HI2. cbn [stack seen pending] in HP2, HI2.
  assert (Hm : mem x (pending s2) = true) by (apply mem_In; rewrite HP2; left; reflexivity).
  rewrite Hm in Hp. injection Hp as <-.
  assert (Hx2 : ~ In x (stack s2)).
  { apply (inv_pend s2 Hs2). rewrite HP2. left. reflexivity. }
  split; [| split].
  - destruct Hs2 as [H1 H2 H3 H4 H5]. constructor; cbn [stack seen pending].
    + apply NoDup_rev in H1. rewrite <- (rev_involutive (stack s2 ++ [x])). apply NoDup_rev.
      rewrite rev_unit. constructor; [| exact H1]. intro H. apply Hx2. apply in_rev. exact H.
    + intro y. rewrite set_insert_In, in_app_iff, H2. simpl. intuition congruence.
    + rewrite rev_unit. simpl. split; [| exact H3].
      intros d Hd. apply in_rev. rewrite rev_involutive. apply HD2. exact Hd.
    + rewrite HP2. rewrite (set_remove_head x (pending s) Epend).
      intros y Hy H. apply in_app_or in H. destruct H as [H | [<- | []]].
      * apply (H4 y); [rewrite HP2; right; exact Hy | exact H].
      * exact (Epend Hy).
    + intros y H. apply in_app_or in H. destruct H as [H | [<- | []]]; [apply H5; exact H | exact Hx].
  - split; cbn [stack seen pending].
    + rewrite HP2. apply set_remove_head. exact Epend.
    + intros y Hy. apply in_or_app. left. apply HI2. exact Hy.
  - unfold Done. simpl. apply in_or_app. right. left. reflexivity.
Qed.

Lemma push_ok_step : forall fuel (l : list N) s x s',
  (forall d, In d l -> reachable deps items d) ->
  In x l -> Inv s -> push fuel deps s x = Ok s' -> Inv s' /\ Rel s s' /\ Done x s'.
Proof. intros fuel l s x s' Hl Hx Hs Hp. eapply push_ok; eauto. Qed.

Lemma push_all_ok : forall fuel l s s',
  (forall d, In d l -> reachable deps items d) ->
  Inv s -> for_each (push fuel deps) s l = Ok s' ->
  Inv s' /\ Rel s s' /\ (forall d, In d l -> Done d s').
Proof.
  intros fuel l s s' Hl Hs Hf.
  apply (for_each_ok st (push fuel deps) Inv Rel Done l Rel_refl Rel_trans Done_mono) with (s := s);
    [| exact Hs | exact Hf].
  intros s0 d s0' Hd. apply (push_ok_step fuel l); assumption.
Qed.

Lemma Inv_init : Inv (mkst [] [] []).
Proof.
  constructor; simpl.
  - constructor.
  - intro x. tauto.
  - exact I.
  - intros x [].
  - intros x [].
Qed.

Theorem order_pending_sound : forall fuel out,
  order_pending fuel deps items = Ok out -> topo_ok deps items out.
Proof.
  intros fuel out H. unfold order_pending in H.
  destruct (for_each (push fuel deps) (mkst [] [] []) items) as [s | | |] eqn:Ef; try discriminate.
  injection H as <-.
  destruct (push_all_ok fuel items _ s (reachable_root items) Inv_init Ef) as (Hs & _ & HD).
  split; [apply (inv_nodup s Hs) |]. split.
  - intro x. split; [apply (inv_reach s Hs) |].
    intros (r & Hr & Hx). apply in_rev.
    eapply deps_first_closed; [apply (inv_first s Hs) | | exact Hx].
    apply in_rev. rewrite rev_involutive. apply HD. exact Hr.
  - apply deps_first_before. apply (inv_first s Hs).
Qed.

(** an error return means a cycle: every pending item reaches the item being pushed *)
Lemma push_err : forall fuel s x,
  Inv s -> reachable deps items x -> (forall p, In p (pending s) -> reach_plus deps p x) ->
  push fuel deps s x = Err -> cyclic deps items.
Proof.
  induction fuel as [| f IH]; intros s x Hs Hx Hpath Hp; simpl in Hp; [discriminate |].
  destruct (mem x (seen s)) eqn:Eseen; [discriminate |].
  destruct (mem x (pending s)) eqn:Epend.
  { apply mem_In in Epend. exists x. split; [exact Hx | apply Hpath; exact Epend]. }
  apply mem_false in Eseen. apply mem_false in Epend.
  assert (Hxs : ~ In x (stack s)) by (intro H; apply Eseen; apply (inv_seen s Hs); exact H).
  assert (Hins : set_insert x (pending s) = x :: pending s)
    by (unfold set_insert; rewrite (proj2 (mem_false _ _) Epend); reflexivity).
  rewrite Hins in Hp.
  set (s1 := mkst (stack s) (seen s) (x :: pending s)) in *.
  assert (Hs1 : Inv s1).
  { destruct Hs as [H1 H2 H3 H4 H5]. constructor; simpl; auto.
    intros y [<- | Hy]; [exact Hxs | apply H4; exact Hy]. }
  assert (Hdeps : forall d, In d (deps x) -> reachable deps items d)
    by (intros d Hd; eapply reachable_edge; eauto).
  destruct (for_each (push f deps) s1 (deps x)) as [s2 | | |] eqn:Ef; try discriminate.
  - destruct (push_all_ok f (deps x) s1 s2 Hdeps Hs1 Ef) as (_ & [HP2 _] & _).
    simpl in HP2. rewrite HP2 in Hp. simpl in Hp. rewrite N.eqb_refl in Hp. discriminate.
  - destruct (for_each_not_ok st (push f deps) Inv Rel (deps x) Err Rel_refl Rel_trans) with (s := s1)
      as (s3 & d & Hd & Hs3 & [HP3 _] & Hp3); [| discriminate | exact Hs1 | exact Ef |].
    { intros s0 d s0' Hd Hs0 Hp0. destruct (push_ok f s0 d s0' Hs0 (Hdeps d Hd) Hp0) as (A & B & _). auto. }
    apply (IH s3 d Hs3 (Hdeps d Hd)); [| exact Hp3].
    intros p Hp'. rewrite HP3 in Hp'. simpl in Hp'. destruct Hp' as [<- | Hp'].
    + exists d. split; [exact Hd | apply reach_refl].
    + eapply reach_plus_edge_r; [apply Hpath; exact Hp' | exact Hd].
Qed.

Lemma push_no_panic : forall fuel s x, push fuel deps s x <> Panic.
Proof.
  induction fuel as [| f IH]; intros s x Hp; simpl in Hp; [discriminate |].
  destruct (mem x (seen s)); [discriminate |].
  destruct (mem x (pending s)); [discriminate |].
  match type of Hp with context [for_each ?p ?s1 ?l] => destruct (for_each p s1 l) as [s2 | | |] eqn:Ef end;
    try discriminate.
  - destruct (mem x (pending s2)); discriminate.
  - destruct (for_each_not_ok st (push f deps) (fun _ => True) (fun _ _ => True) (deps x) Panic) with (s :=
      mkst (stack s) (seen s) (set_insert x (pending s))) as (s3 & d & _ & _ & _ & Hp3); auto; try discriminate.
    exact (IH s3 d Hp3).
Qed.

Theorem order_pending_no_panic : forall fuel, order_pending fuel deps items <> Panic.
Proof.
  intros fuel H. unfold order_pending in H.
  destruct (for_each (push fuel deps) (mkst [] [] []) items) as [s | | |] eqn:Ef; try discriminate.
  destruct (for_each_not_ok st (push fuel deps) (fun _ => True) (fun _ _ => True) items Panic) with (s := mkst [] [] [])
    as (s3 & d & _ & _ & _ & Hp3); auto; try discriminate.
  exact (push_no_panic fuel s3 d Hp3).
Qed.

Lemma order_pending_err_cyclic : forall fuel, order_pending fuel deps items = Err -> cyclic deps items.
Proof.
  intros fuel H. unfold order_pending in H.
  destruct (for_each (push fuel deps) (mkst [] [] []) items) as [s | | |] eqn:Ef; try discriminate.
  destruct (for_each_not_ok st (push fuel deps) Inv Rel items Err Rel_refl Rel_trans) with (s := mkst [] [] [])
    as (s3 & d & Hd & Hs3 & [HP3 _] & Hp3); [| discriminate | exact Inv_init | exact Ef |].
  { intros s0 d s0' Hd Hs0 Hp0. destruct (push_ok fuel s0 d s0' Hs0 (reachable_root items d Hd) Hp0) as (A & B & _). auto. }
  apply (push_err fuel s3 d Hs3 (reachable_root items d Hd)); [| exact Hp3].
  intros p Hp. rewrite HP3 in Hp. destruct Hp.
Qed.

Theorem order_pending_cycle : forall fuel,
  order_pending fuel deps items <> OutOfFuel ->
  (order_pending fuel deps items = Err <-> cyclic deps items).
Proof.
  intros fuel Hfuel. split; [apply order_pending_err_cyclic |].
  intro Hc. destruct (order_pending fuel deps items) as [out | | |] eqn:E.
  - exfalso. exact (topo_ok_acyclic items out (order_pending_sound fuel out E) Hc).
  - reflexivity.
  - exfalso. exact (order_pending_no_panic fuel E).
  - exfalso. apply Hfuel. reflexivity.
Qed.

(** recursion depth is bounded by the pending set *)
Section Bounded.
Variable nodes : list N.
Hypothesis Hnodes : forall x, reachable deps items x -> In x nodes.

Lemma push_fuel : forall fuel s x,
  Inv s -> reachable deps items x -> NoDup (pending s) ->
  (forall p, In p (pending s) -> In p nodes) ->
  (length nodes < fuel + length (pending s))%nat ->
  push fuel deps s x <> OutOfFuel.
Proof.
  induction fuel as [| f IH]; intros s x Hs Hx Hnd Hin Hlen Hp; simpl in Hp.
  - simpl in Hlen. pose proof (NoDup_incl_length Hnd Hin). lia.
  - destruct (mem x (seen s)) eqn:Eseen; [discriminate |].
    destruct (mem x (pending s)) eqn:Epend; [discriminate |].
    apply mem_false in Eseen. apply mem_false in Epend.
    assert (Hxs : ~ In x (stack s)) by (intro H; apply Eseen; apply (inv_seen s Hs); exact H).
    assert (Hins : set_insert x (pending s) = x :: pending s)
    by (unfold set_insert; rewrite (proj2 (mem_false _ _) Epend); reflexivity).
  rewrite Hins in Hp.
    set (s1 := mkst (stack s) (seen s) (x :: pending s)) in *.
    assert (Hs1 : Inv s1).
    { destruct Hs as [H1 H2 H3 H4 H5]. constructor; simpl; auto.
      intros y [<- | Hy]; [exact Hxs | apply H4; exact Hy]. }
    assert (Hdeps : forall d, In d (deps x) -> reachable deps items d)
      by (intros d Hd; eapply reachable_edge; eauto).
    destruct (for_each (push f deps) s1 (deps x)) as [s2 | | |] eqn:Ef; try discriminate.
    + destruct (mem x (pending s2)); discriminate.
    + destruct (for_each_not_ok st (push f deps) Inv Rel (deps x) OutOfFuel Rel_refl Rel_trans) with (s := s1)
        as (s3 & d & Hd & Hs3 & [HP3 _] & Hp3); [| discriminate | exact Hs1 | exact Ef |].
      { intros s0 d s0' Hd Hs0 Hp0. destruct (push_ok f s0 d s0' Hs0 (Hdeps d Hd) Hp0) as (A & B & _). auto. }
      apply (IH s3 d Hs3 (Hdeps d Hd)); [| | | exact Hp3]; rewrite HP3; simpl.
      * constructor; assumption.
      * intros p [<- | Hp']; [apply Hnodes; exact Hx | apply Hin; exact Hp'].
      * lia.
Qed.

Theorem order_pending_bounded : forall fuel,
  (length nodes < fuel)%nat -> order_pending fuel deps items <> OutOfFuel.
Proof.
  intros fuel Hlen H. unfold order_pending in H.
  destruct (for_each (push fuel deps) (mkst [] [] []) items) as [s | | |] eqn:Ef; try discriminate.
  destruct (for_each_not_ok st (push fuel deps) Inv Rel items OutOfFuel Rel_refl Rel_trans) with (s := mkst [] [] [])
    as (s3 & d & Hd & Hs3 & [HP3 _] & Hp3); [| discriminate | exact Inv_init | exact Ef |].
  { intros s0 d s0' Hd Hs0 Hp0. destruct (push_ok fuel s0 d s0' Hs0 (reachable_root items d Hd) Hp0) as (A & B & _). auto. }
  apply (push_fuel fuel s3 d Hs3 (reachable_root items d Hd)); [| | | exact Hp3]; rewrite HP3; simpl.
  - constructor.
  - intros p [].
  - lia.
Qed.
End Bounded.

End Roots.
End Graph.

(** * The hand-rolled orderers (no pending set) *)
Section NoPending.
Variable defined : N -> bool.
Variable deps : N -> list N.
Variable items : list N.

Definition strip (s : st) : st0 := mkst0 (stack s) (seen s).
Definition with_pending (P : list N) (s : st0) : st := mkst (stack0 s) (seen0 s) P.

Lemma not_dangling_defined :
  ~ dangling defined deps items ->
  forall x d, reachable deps items x -> In d (deps x) -> defined d = true.
Proof.
  intros H x d Hx Hd. destruct (defined d) eqn:E; [reflexivity |].
  exfalso. apply H. exists x, d. auto.
Qed.

(** (1) whenever the helper with the pending set returns an order, the hand-rolled code
    returns the same order with the same recursion depth *)
Lemma push_npush : forall fuel s x s',
  ~ dangling defined deps items -> reachable deps items x ->
  push fuel deps s x = Ok s' -> npush fuel defined deps (strip s) x = Ok (strip s').
Proof.
  intros fuel s x s' Hdef. revert s x s'.
  induction fuel as [| f IH]; intros s x s' Hx Hp; simpl in Hp; [discriminate |].
  cbn [npush]. change (seen0 (strip s)) with (seen s).
  destruct (mem x (seen s)) eqn:Eseen; [injection Hp as <-; reflexivity |].
  destruct (mem x (pending s)) eqn:Epend; [discriminate |].
  match type of Hp with context [for_each ?p ?s1 ?l] => destruct (for_each p s1 l) as [s2 | | |] eqn:Ef end;
    try discriminate.
  destruct (mem x (pending s2)) eqn:Em; [| discriminate]. injection Hp as <-.
  assert (Hsim : for_each (lookup_then defined (npush f defined deps)) (strip s) (deps x) = Ok (strip s2)).
  { refine (for_each_sim st st0 (push f deps) (lookup_then defined (npush f defined deps)) strip (deps x) _ _ s2 Ef).
    intros s0 d s0' Hd Hp0. unfold lookup_then.
    rewrite (not_dangling_defined Hdef x d Hx Hd). apply IH; [| exact Hp0].
    eapply reachable_edge; eauto. }
  rewrite Hsim. reflexivity.
Qed.

Lemma order_pending_nopending : forall fuel out,
  ~ dangling defined deps items ->
  order_pending fuel deps items = Ok out -> order_nopending fuel defined deps items = Ok out.
Proof.
  intros fuel out Hdef H. unfold order_pending in H. unfold order_nopending.
  destruct (for_each (push fuel deps) (mkst [] [] []) items) as [s | | |] eqn:Ef; try discriminate.
  injection H as <-.
  assert (Hsim : for_each (npush fuel defined deps) (mkst0 [] []) items = Ok (strip s)).
  { refine (for_each_sim st st0 (push fuel deps) (npush fuel defined deps) strip items _ _ s Ef).
    intros s0 d s0' Hd Hp0. apply push_npush; [exact Hdef | apply reachable_root; exact Hd | exact Hp0]. }
  rewrite Hsim. reflexivity.
Qed.

(** (2) what a returned order satisfies, without any assumption on the graph *)
Record Inv0 (s : st0) : Prop := {
  inv0_seen : forall x, In x (seen0 s) -> In x (stack0 s);
  inv0_first : deps_first deps (rev (stack0 s));
  inv0_def : forall x d, In x (stack0 s) -> In d (deps x) -> defined d = true
}.
Definition Rel0 (s s' : st0) : Prop := incl (stack0 s) (stack0 s').
Definition Done0 (x : N) (s : st0) : Prop := In x (stack0 s).

Lemma Rel0_refl : forall s, Rel0 s s.
Proof. intro s. apply incl_refl. Qed.
Lemma Rel0_trans : forall a b c, Rel0 a b -> Rel0 b c -> Rel0 a c.
Proof. intros a b c H1 H2. eapply incl_tran; eauto. Qed.
Lemma Done0_mono : forall x a b, Done0 x a -> Rel0 a b -> Done0 x b.
Proof. intros x a b H H2. apply H2. exact H. Qed.

Lemma npush_ok : forall fuel s x s',
  Inv0 s -> npush fuel defined deps s x = Ok s' -> Inv0 s' /\ Rel0 s s' /\ Done0 x s'.
Proof.
  induction fuel as [| f IH]; intros s x s' Hs Hp; simpl in Hp; [discriminate |].
  destruct (mem x (seen0 s)) eqn:Eseen.
  { injection Hp as <-. split; [exact Hs |]. split; [apply Rel0_refl |].
    apply mem_In in Eseen. apply (inv0_seen s Hs). exact Eseen. }
  destruct (for_each (lookup_then defined (npush f defined deps)) s (deps x)) as [s2 | | |] eqn:Ef; try discriminate.
  injection Hp as <-.
  assert (Hstep : forall s0 d s0', In d (deps x) -> Inv0 s0 ->
            lookup_then defined (npush f defined deps) s0 d = Ok s0' ->
            Inv0 s0' /\ Rel0 s0 s0' /\ (Done0 d s0' /\ defined d = true)).
  { intros s0 d s0' Hd Hs0 Hp0. unfold lookup_then in Hp0. destruct (defined d) eqn:Ed; [| discriminate].
    destruct (IH s0 d s0' Hs0 Hp0) as (A & B & C). auto. }
  destruct (for_each_ok st0 (lookup_then defined (npush f defined deps)) Inv0 Rel0
              (fun d s => Done0 d s /\ defined d = true) (deps x) Rel0_refl Rel0_trans) with (s := s) (s' := s2)
    as (Hs2 & HI2 & HD2); [| exact Hstep | exact Hs | exact Ef |].
  { intros d a b [H1 H2] H3. split; [eapply Done0_mono; eauto | exact H2]. }
  split; [| split].
  - destruct Hs2 as [H1 H2 H3]. constructor; cbn [stack0 seen0].
    + intros y Hy. apply set_insert_In in Hy. apply in_or_app. destruct Hy as [-> | Hy]; [right; left; reflexivity | left; auto].
    + rewrite rev_unit. simpl. split; [| exact H2].
      intros d Hd. apply in_rev. rewrite rev_involutive. apply (HD2 d Hd).
    + intros y d Hy Hd. apply in_app_or in Hy. destruct Hy as [Hy | [<- | []]]; [eapply H3; eauto |].
      apply (HD2 d Hd).
  - intros y Hy. cbn [stack0]. apply in_or_app. left. apply HI2. exact Hy.
  - unfold Done0. cbn [stack0]. apply in_or_app. right. left. reflexivity.
Qed.

Lemma Inv0_init : Inv0 (mkst0 [] []).
Proof. constructor; simpl; [intros x [] | exact I | intros x d []]. Qed.

Lemma order_nopending_ok : forall fuel out,
  order_nopending fuel defined deps items = Ok out ->
  deps_first deps (rev out) /\ (forall x, reachable deps items x -> In x out) /\
  (forall x d, In x out -> In d (deps x) -> defined d = true).
Proof.
  intros fuel out H. unfold order_nopending in H.
  destruct (for_each (npush fuel defined deps) (mkst0 [] []) items) as [s | | |] eqn:Ef; try discriminate.
  injection H as <-.
  destruct (for_each_ok st0 (npush fuel defined deps) Inv0 Rel0 Done0 items Rel0_refl Rel0_trans Done0_mono)
    with (s := mkst0 [] []) (s' := s) as (Hs & _ & HD); [| exact Inv0_init | exact Ef |].
  { intros s0 d s0' _ Hs0 Hp0. apply (npush_ok fuel s0 d s0' Hs0 Hp0). }
  split; [apply (inv0_first s Hs) |]. split; [| apply (inv0_def s Hs)].
  intros x (r & Hr & Hx). apply in_rev.
  eapply deps_first_closed; [apply (inv0_first s Hs) | | exact Hx].
  apply in_rev. rewrite rev_involutive. apply HD. exact Hr.
Qed.

Theorem order_nopending_ok_acyclic : forall fuel out,
  order_nopending fuel defined deps items = Ok out -> ~ cyclic deps items.
Proof.
  intros fuel out H (x & Hx & Hc). destruct (order_nopending_ok fuel out H) as (Hf & Hin & _).
  apply (deps_first_acyclic deps (rev out) x Hf); [apply in_rev; rewrite rev_involutive; auto | exact Hc].
Qed.

Theorem order_nopending_ok_not_dangling : forall fuel out,
  order_nopending fuel defined deps items = Ok out -> ~ dangling defined deps items.
Proof.
  intros fuel out H (x & d & Hx & Hd & Hdef). destruct (order_nopending_ok fuel out H) as (_ & Hin & Hall).
  rewrite (Hall x d (Hin x Hx) Hd) in Hdef. discriminate.
Qed.

Lemma npush_no_err : forall fuel s x, npush fuel defined deps s x <> Err.
Proof.
  induction fuel as [| f IH]; intros s x Hp; simpl in Hp; [discriminate |].
  destruct (mem x (seen0 s)); [discriminate |].
  destruct (for_each (lookup_then defined (npush f defined deps)) s (deps x)) as [s2 | | |] eqn:Ef; try discriminate.
  destruct (for_each_not_ok st0 (lookup_then defined (npush f defined deps)) (fun _ => True) (fun _ _ => True) (deps x) Err)
    with (s := s) as (s3 & d & _ & _ & _ & Hp3); auto; try discriminate.
  unfold lookup_then in Hp3. destruct (defined d); [exact (IH s3 d Hp3) | discriminate].
Qed.

Theorem order_nopending_no_err : forall fuel, order_nopending fuel defined deps items <> Err.
Proof.
  intros fuel H. unfold order_nopending in H.
  destruct (for_each (npush fuel defined deps) (mkst0 [] []) items) as [s | | |] eqn:Ef; try discriminate.
  destruct (for_each_not_ok st0 (npush fuel defined deps) (fun _ => True) (fun _ _ => True) items Err)
    with (s := mkst0 [] []) as (s3 & d & _ & _ & _ & Hp3); auto; try discriminate.
  exact (npush_no_err fuel s3 d Hp3).
Qed.

Lemma npush_panic : forall fuel s x,
  (forall y, defined y = true) -> npush fuel defined deps s x <> Panic.
Proof.
  intros fuel s x Hall. revert s x.
  induction fuel as [| f IH]; intros s x Hp; simpl in Hp; [discriminate |].
  destruct (mem x (seen0 s)); [discriminate |].
  destruct (for_each (lookup_then defined (npush f defined deps)) s (deps x)) as [s2 | | |] eqn:Ef; try discriminate.
  destruct (for_each_not_ok st0 (lookup_then defined (npush f defined deps)) (fun _ => True) (fun _ _ => True) (deps x) Panic)
    with (s := s) as (s3 & d & _ & _ & _ & Hp3); auto; try discriminate.
  unfold lookup_then in Hp3. rewrite Hall in Hp3. exact (IH s3 d Hp3).
Qed.

Theorem order_nopending_no_panic : forall fuel,
  (forall y, defined y = true) -> order_nopending fuel defined deps items <> Panic.
Proof.
  intros fuel Hall H. unfold order_nopending in H.
  destruct (for_each (npush fuel defined deps) (mkst0 [] []) items) as [s | | |] eqn:Ef; try discriminate.
  destruct (for_each_not_ok st0 (npush fuel defined deps) (fun _ => True) (fun _ _ => True) items Panic)
    with (s := mkst0 [] []) as (s3 & d & _ & _ & _ & Hp3); auto; try discriminate.
  exact (npush_panic fuel s3 d Hall Hp3).
Qed.

(** (3) on an acyclic graph the hand-rolled code behaves like the helper *)
Lemma npush_push : forall fuel s x s' P,
  ~ cyclic deps items -> reachable deps items x ->
  (forall p, In p P -> reach_plus deps p x) ->
  npush fuel defined deps s x = Ok s' ->
  push fuel deps (with_pending P s) x = Ok (with_pending P s').
Proof.
  intros fuel s x s' P Hac. revert s x s' P.
  induction fuel as [| f IH]; intros s x s' P Hx Hpath Hp; simpl in Hp; [discriminate |].
  simpl. destruct (mem x (seen0 s)) eqn:Eseen; [injection Hp as <-; reflexivity |].
  destruct (mem x P) eqn:Epend.
  { exfalso. apply Hac. exists x. split; [exact Hx |]. apply Hpath. apply mem_In. exact Epend. }
  destruct (for_each (lookup_then defined (npush f defined deps)) s (deps x)) as [s2 | | |] eqn:Ef; try discriminate.
  injection Hp as <-.
  apply mem_false in Epend.
  assert (Hins : set_insert x P = x :: P)
    by (unfold set_insert; rewrite (proj2 (mem_false _ _) Epend); reflexivity).
  rewrite Hins.
  assert (Hsim : for_each (push f deps) (mkst (stack0 s) (seen0 s) (x :: P)) (deps x) = Ok (with_pending (x :: P) s2)).
  { refine (for_each_sim st0 st (lookup_then defined (npush f defined deps)) (push f deps) (with_pending (x :: P)) (deps x) _ _ s2 Ef).
    intros s0 d s0' Hd Hp0. unfold lookup_then in Hp0. destruct (defined d); [| discriminate].
    apply IH; [eapply reachable_edge; eauto | | exact Hp0].
    intros p [<- | Hp'].
    + exists d. split; [exact Hd | apply reach_refl].
    + eapply reach_plus_edge_r; [apply Hpath; exact Hp' | exact Hd]. }
  cbn [with_pending stack seen pending]. rewrite Hsim.
  cbn [with_pending pending stack seen].
  assert (Hm : mem x (x :: P) = true) by (apply mem_In; left; reflexivity).
  rewrite Hm. rewrite (set_remove_head x P Epend). reflexivity.
Qed.

Theorem order_nopending_sound : forall fuel out,
  order_nopending fuel defined deps items = Ok out -> topo_ok deps items out.
Proof.
  intros fuel out H. pose proof (order_nopending_ok_acyclic fuel out H) as Hac.
  apply (order_pending_sound deps items fuel).
  unfold order_nopending in H. unfold order_pending.
  destruct (for_each (npush fuel defined deps) (mkst0 [] []) items) as [s | | |] eqn:Ef; try discriminate.
  injection H as <-.
  assert (Hsim : for_each (push fuel deps) (mkst [] [] []) items = Ok (with_pending [] s)).
  { refine (for_each_sim st0 st (npush fuel defined deps) (push fuel deps) (with_pending []) items _ _ s Ef).
    intros s0 d s0' Hd Hp0. apply npush_push; [exact Hac | apply reachable_root; exact Hd | intros p [] | exact Hp0]. }
  rewrite Hsim. reflexivity.
Qed.

Theorem order_nopending_acyclic : forall nodes fuel,
  ~ cyclic deps items -> ~ dangling defined deps items ->
  (forall x, reachable deps items x -> In x nodes) -> (length nodes < fuel)%nat ->
  exists out, order_nopending fuel defined deps items = Ok out /\ topo_ok deps items out.
Proof.
  intros nodes fuel Hac Hdef Hnodes Hlen.
  destruct (order_pending fuel deps items) as [out | | |] eqn:E.
  - exists out. split; [apply order_pending_nopending; assumption | eapply order_pending_sound; eauto].
  - exfalso. apply Hac. eapply order_pending_err_cyclic; eauto.
  - exfalso. eapply order_pending_no_panic; eauto.
  - exfalso. eapply order_pending_bounded; eauto.
Qed.

(** (4) on a cyclic graph no fuel is enough *)
Theorem order_nopending_cyclic : forall fuel,
  cyclic deps items ->
  order_nopending fuel defined deps items = OutOfFuel \/ order_nopending fuel defined deps items = Panic.
Proof.
  intros fuel Hc. destruct (order_nopending fuel defined deps items) as [out | | |] eqn:E; auto.
  - exfalso. exact (order_nopending_ok_acyclic fuel out E Hc).
  - exfalso. exact (order_nopending_no_err fuel E).
Qed.

Theorem order_nopending_dangling : forall fuel out,
  dangling defined deps items -> order_nopending fuel defined deps items <> Ok out.
Proof. intros fuel out Hd H. exact (order_nopending_ok_not_dangling fuel out H Hd). Qed.

End NoPending.

Theorem order_nopending_cyclic_overflow : forall deps items fuel,
  cyclic deps items -> order_nopending fuel all_defined deps items = OutOfFuel.
Proof.
  intros deps items fuel Hc. destruct (order_nopending_cyclic all_defined deps items fuel Hc) as [H | H]; [exact H |].
  exfalso. exact (order_nopending_no_panic all_defined deps items fuel (fun _ => eq_refl) H).
Qed.

(** * Soundness of the executable checkers of Order/DepOrderCheck.v *)
Section Checkers.
Variable deps : N -> list N.

Lemma nodupb_sound : forall l, nodupb l = true -> NoDup l.
Proof.
  induction l as [| x r IH]; intro H; [constructor |].
  simpl in H. apply andb_prop in H. destruct H as [H1 H2]. constructor; [| apply IH; exact H2].
  apply mem_false. destruct (mem x r); [discriminate | reflexivity].
Qed.

Lemma deps_beforeb_sound : forall l p,
  deps_beforeb deps p l = true -> deps_first deps p -> deps_first deps (rev l ++ p).
Proof.
  induction l as [| x r IH]; intros p H Hp; [exact Hp |].
  simpl in H. apply andb_prop in H. destruct H as [H1 H2].
  simpl. rewrite <- app_assoc. simpl. apply IH; [exact H2 |].
  simpl. split; [| exact Hp]. intros d Hd. rewrite forallb_forall in H1. apply mem_In. apply H1. exact Hd.
Qed.

Lemma all_reachedb_sound : forall items l R,
  all_reachedb deps R l = true -> (forall y, In y R -> reachable deps items y) ->
  forall x, In x l -> reachable deps items x.
Proof.
  intros items. induction l as [| a r IH]; intros R H HR x Hx; [destruct Hx |].
  simpl in H. apply andb_prop in H. destruct H as [H1 H2]. apply mem_In in H1.
  destruct Hx as [<- | Hx]; [apply HR; exact H1 |].
  apply (IH (deps a ++ R) H2); [| exact Hx].
  intros y Hy. apply in_app_or in Hy. destruct Hy as [Hy | Hy]; [| apply HR; exact Hy].
  eapply reachable_edge; [apply HR; exact H1 | exact Hy].
Qed.

Theorem topo_okb_sound : forall items out, topo_okb deps items out = true -> topo_ok deps items out.
Proof.
  intros items out H. unfold topo_okb in H.
  apply andb_prop in H. destruct H as [H H4]. apply andb_prop in H. destruct H as [H H3].
  apply andb_prop in H. destruct H as [H1 H2].
  pose proof (deps_beforeb_sound out [] H3 I) as Hf. rewrite app_nil_r in Hf.
  split; [apply nodupb_sound; exact H1 |]. split; [| apply deps_first_before; exact Hf].
  intro x. split.
  - intro Hx. apply (all_reachedb_sound items (rev out) items H4); [apply reachable_root | apply in_rev in Hx; exact Hx].
  - intros (r & Hr & Hx). apply in_rev. eapply deps_first_closed; [exact Hf | | exact Hx].
    apply in_rev. rewrite rev_involutive. rewrite forallb_forall in H2. apply mem_In. apply H2. exact Hr.
Qed.

Lemma walkb_reach : forall w x, walkb deps (x :: w) = true -> forall y, In y (x :: w) -> reach deps x y.
Proof.
  induction w as [| z w IH]; intros x H y Hy.
  - destruct Hy as [<- | []]. apply reach_refl.
  - change (walkb deps (x :: z :: w)) with (mem z (deps x) && walkb deps (z :: w)) in H.
    apply andb_prop in H. destruct H as [H1 H2]. apply mem_In in H1.
    destruct Hy as [<- | Hy]; [apply reach_refl |].
    eapply reach_step; [exact H1 | apply IH; assumption].
Qed.

Lemma walkb_app : forall l1 l2, walkb deps (l1 ++ l2) = true -> walkb deps l2 = true.
Proof.
  induction l1 as [| a l1 IH]; intros l2 H; [exact H |].
  apply IH. simpl in H. destruct (l1 ++ l2) as [| y t] eqn:E; [reflexivity |].
  apply andb_prop in H. apply H.
Qed.

Theorem cycle_walkb_sound : forall items w, cycle_walkb deps items w = true -> cyclic deps items.
Proof.
  intros items w H. destruct w as [| r w']; [discriminate |].
  unfold cycle_walkb in H. apply andb_prop in H. destruct H as [H H3]. apply andb_prop in H. destruct H as [H1 H2].
  apply mem_In in H1. apply mem_In in H3.
  set (w := r :: w') in *. set (z := last w 0%N) in *.
  assert (Ew : w = removelast w ++ [z]) by (apply app_removelast_last; discriminate).
  apply in_split in H3. destruct H3 as (l1 & l2 & E3).
  assert (Hz : In z w) by (rewrite Ew; apply in_or_app; right; left; reflexivity).
  exists z. split.
  - exists r. split; [exact H1 | apply (walkb_reach w' r H2 z Hz)].
  - rewrite Ew, E3 in H2. rewrite <- app_assoc in H2. apply walkb_app in H2.
    simpl in H2. destruct (l2 ++ [z]) as [| y t] eqn:E; [destruct l2; discriminate |].
    apply andb_prop in H2. destruct H2 as [Hy Ht]. apply mem_In in Hy.
    exists y. split; [exact Hy |]. apply (walkb_reach t y Ht).
    rewrite <- E. apply in_or_app. right. left. reflexivity.
Qed.

Theorem classify_sound : forall fuel items,
  match classify fuel deps items with
  | Acyclic o => topo_ok deps items o /\ ~ cyclic deps items
  | Cyclic => cyclic deps items
  | Undecided => True
  end.
Proof.
  intros fuel items. unfold classify. destruct (search fuel deps items) as [o | w |]; [| | exact I].
  - destruct (topo_okb deps items o) eqn:E; [| exact I].
    apply topo_okb_sound in E. split; [exact E | eapply topo_ok_acyclic; eauto].
  - destruct (cycle_walkb deps items w) eqn:E; [| exact I]. eapply cycle_walkb_sound; eauto.
Qed.

Lemma danglingb_sound : forall defined items l,
  (forall x, In x l -> reachable deps items x) ->
  danglingb defined deps l = true -> dangling defined deps items.
Proof.
  intros defined items l Hl H. unfold danglingb in H. apply existsb_exists in H. destruct H as (x & Hx & H).
  apply existsb_exists in H. destruct H as (d & Hd & H). exists x, d. split; [apply Hl; exact Hx |].
  split; [exact Hd |]. destruct (defined d); [discriminate | reflexivity].
Qed.

Lemma danglingb_complete : forall defined items l,
  (forall x, reachable deps items x -> In x l) ->
  dangling defined deps items -> danglingb defined deps l = true.
Proof.
  intros defined items l Hl (x & d & Hx & Hd & H). unfold danglingb. apply existsb_exists.
  exists x. split; [apply Hl; exact Hx |]. apply existsb_exists. exists d. split; [exact Hd |]. rewrite H. reflexivity.
Qed.
End Checkers.

(** What a passing correspondence case (code 0 or 1) establishes about the implementation's
    behaviour [rc]/[out] on the graph [g]: it returned an order or an error, the order is a
    correct dependency order of an acyclic (and, for GDSII, closed) graph, an error is only
    returned for a cyclic graph (or, for GDSII, a dangling reference). *)
Theorem c17_check_sound : forall kind g items rc out,
  (c17_check kind g items rc out = 0 \/ c17_check kind g items rc out = 1)%Z ->
  (rc = 0%Z /\ topo_ok (deps_of g) items out /\ ~ cyclic (deps_of g) items /\
     (gds_kind kind = true -> ~ dangling (definedb g) (deps_of g) items)) \/
  (rc = 1%Z /\ (cyclic (deps_of g) items \/ (gds_kind kind = true /\ dangling (definedb g) (deps_of g) items))).
Proof.
  intros kind g items rc out H. unfold c17_check, expected in H.
  pose proof (classify_sound (deps_of g) (check_fuel g) items) as Hc.
  destruct (classify (check_fuel g) (deps_of g) items) as [o | |].
  - destruct Hc as [Ho Hac].
    destruct (gds_kind kind && danglingb (definedb g) (deps_of g) o) eqn:Ed.
    + change ((1 =? 1)%Z) with true in H. cbn iota in H.
      destruct (rc =? 1)%Z eqn:Erc; [| simpl in H; destruct H; discriminate].
      right. apply Z.eqb_eq in Erc. split; [exact Erc |]. right.
      apply andb_prop in Ed. destruct Ed as [Ek Ed]. split; [exact Ek |].
      eapply danglingb_sound; [| exact Ed]. intros x Hx. apply Ho. exact Hx.
    + change ((0 =? 1)%Z) with false in H. cbn iota in H.
      destruct ((rc =? 0)%Z && topo_okb (deps_of g) items out) eqn:Ep; [| simpl in H; destruct H; discriminate].
      left. apply andb_prop in Ep. destruct Ep as [Erc Et]. apply Z.eqb_eq in Erc.
      split; [exact Erc |]. split; [apply topo_okb_sound; exact Et |]. split; [exact Hac |].
      intros Hk Hd. rewrite Hk in Ed. simpl in Ed.
      rewrite (danglingb_complete (deps_of g) (definedb g) items o) in Ed; [discriminate | | exact Hd].
      intros x Hx. apply Ho. exact Hx.
  - change ((1 =? 1)%Z) with true in H. cbn iota in H.
    destruct (rc =? 1)%Z eqn:Erc; [| simpl in H; destruct H; discriminate].
    right. apply Z.eqb_eq in Erc. split; [exact Erc |]. left. exact Hc.
  - destruct H; discriminate.
Qed.

(** * Completeness of [topo_okb]: the oracle accepts every correct order (no false alarms) *)
Section Complete.
Variable deps : N -> list N.

Lemma nodupb_complete : forall l, NoDup l -> nodupb l = true.
Proof.
  induction l as [| x r IH]; intro H; [reflexivity |].
  apply NoDup_cons_iff in H. destruct H as [H1 H2]. simpl.
  rewrite (proj2 (mem_false x r) H1). simpl. apply IH. exact H2.
Qed.

Lemma deps_beforeb_complete : forall l p,
  (forall l1 x l2, l = l1 ++ x :: l2 -> forall d, In d (deps x) -> In d l1 \/ In d p) ->
  deps_beforeb deps p l = true.
Proof.
  induction l as [| x r IH]; intros p H; [reflexivity |].
  simpl. apply andb_true_intro. split.
  - apply forallb_forall. intros d Hd. apply mem_In.
    destruct (H [] x r eq_refl d Hd) as [[] | Hp]. exact Hp.
  - apply IH. intros l1 y l2 E d Hd.
    destruct (H (x :: l1) y l2) with (d := d) as [[<- | H1] | H1]; [rewrite E; reflexivity | exact Hd | | |].
    + right. left. reflexivity.
    + left. exact H1.
    + right. right. exact H1.
Qed.

Lemma all_reachedb_complete : forall l R,
  (forall l1 x l2, l = l1 ++ x :: l2 -> In x R \/ exists y, In y l1 /\ In x (deps y)) ->
  all_reachedb deps R l = true.
Proof.
  induction l as [| a r IH]; intros R H; [reflexivity |].
  simpl. apply andb_true_intro. split.
  - apply mem_In. destruct (H [] a r eq_refl) as [HR | (y & [] & _)]. exact HR.
  - apply IH. intros l1 x l2 E.
    destruct (H (a :: l1) x l2) as [HR | (y & [<- | Hy] & Hx)]; [rewrite E; reflexivity | | |].
    + left. apply in_or_app. right. exact HR.
    + left. apply in_or_app. left. exact Hx.
    + right. exists y. split; assumption.
Qed.

Lemma reach_last : forall x y, reach deps x y -> x = y \/ exists z, reach deps x z /\ In y (deps z).
Proof.
  intros x y H. induction H as [x | x d y Hd Hr IH]; [left; reflexivity |].
  right. destruct IH as [<- | (z & Hz & Hy)].
  - exists x. split; [apply reach_refl | exact Hd].
  - exists z. split; [eapply reach_step; eauto | exact Hy].
Qed.

Theorem topo_okb_complete : forall items out, topo_ok deps items out -> topo_okb deps items out = true.
Proof.
  intros items out (Hnd & Hin & Hb). unfold topo_okb.
  apply andb_true_intro. split; [apply andb_true_intro; split; [apply andb_true_intro; split |] |].
  - apply nodupb_complete. exact Hnd.
  - apply forallb_forall. intros r Hr. apply mem_In. apply Hin. apply reachable_root. exact Hr.
  - apply deps_beforeb_complete. intros l1 x l2 E d Hd. left. eapply Hb; eauto.
  - apply all_reachedb_complete. intros l1 x l2 E.
    assert (Eo : out = rev l2 ++ x :: rev l1).
    { rewrite <- (rev_involutive out), E. rewrite rev_app_distr. simpl. rewrite <- app_assoc. reflexivity. }
    assert (Hx : In x out) by (rewrite Eo; apply in_or_app; right; left; reflexivity).
    apply Hin in Hx. destruct Hx as (r & Hr & Hrx).
    destruct (reach_last r x Hrx) as [<- | (z & Hz & Hxz)]; [left; exact Hr |].
    right. exists z. split; [| exact Hxz].
    assert (Hzo : In z out) by (apply Hin; exists r; auto).
    (* z stands after x: otherwise x would occur twice *)
    rewrite Eo in Hzo. apply in_app_or in Hzo. destruct Hzo as [Hz1 | [Hz1 | Hz1]].
    + exfalso. apply in_split in Hz1. destruct Hz1 as (k1 & k2 & Ek).
      assert (Hxk : In x k1).
      { apply (Hb k1 z (k2 ++ x :: rev l1)); [| exact Hxz]. rewrite Eo, Ek, <- app_assoc. reflexivity. }
      rewrite Eo in Hnd. apply NoDup_remove_2 in Hnd. apply Hnd. apply in_or_app. left.
      rewrite Ek. apply in_or_app. left. exact Hxk.
    + exfalso. subst z.
      assert (Hxk : In x (rev l2)) by (apply (Hb (rev l2) x (rev l1) Eo); exact Hxz).
      rewrite Eo in Hnd. apply NoDup_remove_2 in Hnd. apply Hnd. apply in_or_app. left. exact Hxk.
    + apply in_rev. exact Hz1.
Qed.
End Complete.

(** * Summary statements used by Properties/C17.v *)
Theorem order_pending_total : forall deps items nodes,
  (forall x, reachable deps items x -> In x nodes) ->
  let r := order_pending (S (length nodes)) deps items in
  (cyclic deps items /\ r = Err) \/
  (~ cyclic deps items /\ exists out, r = Ok out /\ topo_ok deps items out).
Proof.
  intros deps items nodes Hn r.
  assert (Hf : r <> OutOfFuel) by (apply (order_pending_bounded deps items nodes Hn); apply Nat.lt_succ_diag_r).
  pose proof (order_pending_cycle deps items _ Hf) as Hc. fold r in Hc.
  destruct r as [out | | |] eqn:E.
  - right. pose proof (order_pending_sound deps items _ out E) as Ht.
    split; [eapply topo_ok_acyclic; eauto | exists out; auto].
  - left. split; [apply Hc; reflexivity | reflexivity].
  - exfalso. exact (order_pending_no_panic deps items _ E).
  - exfalso. apply Hf. reflexivity.
Qed.

Theorem order_nopending_sound_full : forall fuel defined deps items out,
  order_nopending fuel defined deps items = Ok out ->
  topo_ok deps items out /\ ~ cyclic deps items /\ ~ dangling defined deps items.
Proof.
  intros fuel defined deps items out H. split; [| split].
  - exact (order_nopending_sound defined deps items fuel out H).
  - exact (order_nopending_ok_acyclic defined deps items fuel out H).
  - exact (order_nopending_ok_not_dangling defined deps items fuel out H).
Qed.

Definition selfloop : N -> list N := fun _ => [0%N].

Lemma selfloop_cyclic : cyclic selfloop [0%N].
Proof. exists 0%N. split; exists 0%N; (split; [left; reflexivity | apply reach_refl]). Qed.

Lemma selfloop_reach : forall x y, reach selfloop x y -> x = 0%N -> y = 0%N.
Proof.
  intros x y H. induction H as [x | x d y Hd Hr IH]; intro E; [exact E |].
  apply IH. destruct Hd as [<- | []]. reflexivity.
Qed.

Lemma selfloop_nodes : forall x, reachable selfloop [0%N] x -> In x [0%N].
Proof.
  intros x (r & [<- | []] & Hr). left. symmetry. eapply selfloop_reach; [exact Hr | reflexivity].
Qed.

Theorem nopending_cycle_refuted :
  exists deps items, cyclic deps items /\
    forall fuel, order_nopending fuel all_defined deps items = OutOfFuel.
Proof.
  exists selfloop, [0%N]. split; [exact selfloop_cyclic |].
  intro fuel. apply order_nopending_cyclic_overflow. exact selfloop_cyclic.
Qed.

Theorem nopending_cycle_full_refuted :
  ~ (forall defined deps items nodes,
       (forall x, reachable deps items x -> In x nodes) ->
       cyclic deps items -> order_nopending (S (length nodes)) defined deps items = Err).
Proof.
  intro H. specialize (H all_defined selfloop [0%N] [0%N] selfloop_nodes selfloop_cyclic).
  rewrite (order_nopending_cyclic_overflow selfloop [0%N] _ selfloop_cyclic) in H. discriminate.
Qed.
