(** Iterating a hash map "through a sort of its keys" does not depend on the order in which the
    map happens to yield its entries.  This is the reason the repaired exporters are deterministic:
    a HashMap's iteration order is modelled as an arbitrary permutation [ord] of its (distinct-key)
    entries; the exporters sort the entries by layer key before use. *)
From Coq Require Import ZArith List Permutation Sorted Lia.
Import ListNotations.
Local Open Scope Z_scope.

Section SortedIter.
  Context {A : Type}.
  Definition entry := (Z * A)%type.

  Fixpoint insert (kv : entry) (l : list entry) : list entry :=
    match l with
    | [] => [kv]
    | x :: l' => if fst kv <=? fst x then kv :: l else x :: insert kv l'
    end.
  Fixpoint isort (l : list entry) : list entry :=
    match l with
    | [] => []
    | x :: l' => insert x (isort l')
    end.

  Definition klt (a b : entry) : Prop := fst a < fst b.

  Lemma insert_perm kv l : Permutation (insert kv l) (kv :: l).
  Proof.
    induction l as [|x l IH]; cbn [insert]; [reflexivity|].
    destruct (fst kv <=? fst x); [reflexivity|].
    rewrite IH. apply perm_swap.
  Qed.

  Lemma isort_perm l : Permutation (isort l) l.
  Proof.
    induction l as [|x l IH]; cbn [isort]; [reflexivity|].
    rewrite insert_perm. now constructor.
  Qed.

  Lemma insert_sorted kv l :
    StronglySorted klt l -> ~ In (fst kv) (map fst l) -> StronglySorted klt (insert kv l).
  Proof.
    induction l as [|x l IH]; intros Hs Hn; cbn [insert].
    - repeat constructor.
    - destruct (fst kv <=? fst x) eqn:E.
      + constructor; [exact Hs|].
        assert (Hlt : fst kv < fst x).
        { apply Z.leb_le in E. cbn in Hn. assert (fst x <> fst kv) by tauto. lia. }
        constructor; [exact Hlt|].
        inversion Hs as [|? ? Hs' Hall]; subst.
        eapply Forall_impl; [|exact Hall]. intros b Hb. unfold klt in *. lia.
      + inversion Hs as [|? ? Hs' Hall]; subst.
        constructor.
        * apply IH; [exact Hs'|]. cbn in Hn. tauto.
        * apply Z.leb_gt in E.
          assert (Hp := insert_perm kv l).
          eapply Permutation_Forall; [symmetry; exact Hp|].
          constructor; [unfold klt; lia | exact Hall].
  Qed.

  Lemma isort_sorted l : NoDup (map fst l) -> StronglySorted klt (isort l).
  Proof.
    induction l as [|x l IH]; intros Hnd; cbn [isort]; [constructor|].
    inversion Hnd as [|? ? Hni Hnd']; subst.
    apply insert_sorted; [apply IH; exact Hnd'|].
    intro Hin. apply Hni.
    eapply Permutation_in; [|exact Hin].
    apply Permutation_map, isort_perm.
  Qed.

  Lemma sorted_perm_eq (l1 l2 : list entry) :
    StronglySorted klt l1 -> StronglySorted klt l2 -> Permutation l1 l2 -> l1 = l2.
  Proof.
    revert l2; induction l1 as [|a t1 IH]; intros l2 H1 H2 Hp.
    - apply Permutation_nil in Hp. now subst.
    - destruct l2 as [|b t2]; [apply Permutation_sym, Permutation_nil in Hp; discriminate|].
      inversion H1 as [|? ? H1' Ha]; subst. inversion H2 as [|? ? H2' Hb]; subst.
      assert (Hab : a = b).
      { assert (Hina : In a (b :: t2)) by (eapply Permutation_in; [exact Hp|left; reflexivity]).
        assert (Hinb : In b (a :: t1)) by (eapply Permutation_in; [symmetry; exact Hp|left; reflexivity]).
        destruct Hina as [->|Hina]; [reflexivity|].
        destruct Hinb as [->|Hinb]; [reflexivity|].
        rewrite Forall_forall in Ha, Hb.
        specialize (Ha _ Hinb). specialize (Hb _ Hina). unfold klt in *. lia. }
      subst b. f_equal. apply IH; [exact H1'|exact H2'|].
      eapply Permutation_cons_inv; exact Hp.
  Qed.

  (** Whatever order a map with distinct keys yields its entries in, the sorted iteration is the same. *)
  Theorem sorted_iteration_order_irrelevant (l1 l2 : list entry) :
    NoDup (map fst l1) -> Permutation l1 l2 -> isort l1 = isort l2.
  Proof.
    intros Hnd Hp.
    apply sorted_perm_eq.
    - apply isort_sorted, Hnd.
    - apply isort_sorted. eapply Permutation_NoDup; [|exact Hnd]. apply Permutation_map, Hp.
    - rewrite (isort_perm l1), (isort_perm l2). exact Hp.
  Qed.

  (** Without the sort the result does depend on the order: the code before the repair. *)
  Definition iterate_unsorted (ord : list entry) : list entry := ord.
End SortedIter.

Lemma unsorted_iteration_refuted :
  exists l1 l2 : list (Z * Z), NoDup (map fst l1) /\ Permutation l1 l2 /\ iterate_unsorted l1 <> iterate_unsorted l2.
Proof.
  exists [(5, 0); (6, 1)], [(6, 1); (5, 0)]. repeat split.
  - repeat constructor; cbn; intuition lia.
  - apply perm_swap.
  - discriminate.
Qed.
