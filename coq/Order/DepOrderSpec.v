(** Specification of a dependency ordering (property C17), written from the property
    statement, not from the code.  A graph is [deps : N -> list N] (direct dependencies of a
    node) and [items] the list of roots the ordering is asked for. *)
From Coq Require Import NArith List.
Import ListNotations.

(** [reach deps x y]: y is x or a (transitive) dependency of x. *)
Inductive reach (deps : N -> list N) : N -> N -> Prop :=
| reach_refl : forall x, reach deps x x
| reach_step : forall x d y, In d (deps x) -> reach deps d y -> reach deps x y.

(** [reach_plus deps x y]: y is a transitive dependency of x (at least one step). *)
Definition reach_plus (deps : N -> list N) (x y : N) : Prop :=
  exists d, In d (deps x) /\ reach deps d y.

(** the items the ordering is about: the roots and everything they depend on *)
Definition reachable (deps : N -> list N) (items : list N) (x : N) : Prop :=
  exists r, In r items /\ reach deps r x.

(** [before d x out]: some occurrence of x in out has an occurrence of d strictly before it
    (with [NoDup out]: d's position is smaller than x's). *)
Definition before (d x : N) (out : list N) : Prop :=
  exists l1 l2, out = l1 ++ x :: l2 /\ In d l1.

(** an item is listed only after everything it depends on: wherever x stands in [out],
    all its dependencies stand in the part before it *)
Definition deps_before (deps : N -> list N) (out : list N) : Prop :=
  forall l1 x l2, out = l1 ++ x :: l2 -> forall d, In d (deps x) -> In d l1.

(** each reachable item exactly once, and an item only after everything it depends on.
    (Consequence, lemma topo_ok_before: In x out -> In d (deps x) -> before d x out.) *)
Definition topo_ok (deps : N -> list N) (items out : list N) : Prop :=
  NoDup out /\
  (forall x, In x out <-> reachable deps items x) /\
  deps_before deps out.

(** a cycle (including a self-reference) among the reachable items *)
Definition cyclic (deps : N -> list N) (items : list N) : Prop :=
  exists x, reachable deps items x /\ reach_plus deps x x.

(** a reachable item refers to something that does not exist (GDSII: SREF to a missing name) *)
Definition dangling (defined : N -> bool) (deps : N -> list N) (items : list N) : Prop :=
  exists x d, reachable deps items x /\ In d (deps x) /\ defined d = false.
