(** Model of the dependency orderers of /repo (property C17). No proofs here.

    Graph: nodes are numbers [N]; [deps : N -> list N] lists a node's direct dependencies in
    the order the code iterates over them (instances of a cell's layout, SREF/AREF elements of
    a GDSII struct, the `to` of a relative placement); [items] is the slice / library listing
    the orderer is started on.  Hash sets ([seen], [pending]) are lists with a membership
    test; only membership, insert and remove are used by the code, never iteration, so no
    order oracle is needed.  The output [stack] is a list, [Vec::push] = append at the end.

    Recursion: [push] recurses through the dependencies.  The model recurses on explicit
    fuel = remaining recursion DEPTH (one unit per nested [push] frame), with the distinct
    result [OutOfFuel].  "For every fuel the result is OutOfFuel" is therefore the model's
    statement of "the real code recurses without bound" (stack overflow).

    [order_pending]  = layout21utils/src/dep_order.rs  DepOrderer::order / push, with
                       `process` = "push every dependency, propagate errors with `?`"
                       (tetris placer.rs PlaceOrder, tetris conv/proto.rs CellOrder, and the
                       harness instance).
    [order_nopending] = the three hand-rolled orderers without a pending set:
                       layout21raw/src/data.rs DepOrder, layout21tetris/src/library.rs DepOrder
                       ([defined] = fun _ => true: a Ptr always resolves) and
                       layout21raw/src/gds.rs GdsDepOrder ([defined x] = "a struct named x
                       exists"; `self.strukts.get(&x.name).unwrap()` on a missing name is
                       [Panic]).  GDSII struct names are assumed distinct (a node = a name). *)
From Coq Require Import NArith List Bool.
Import ListNotations.
Local Open Scope N_scope.

Inductive res (A : Type) : Type :=
| Ok (a : A)      (* Ok(..) *)
| Err             (* P::fail(): the orderer's error return *)
| Panic           (* unwrap() on None *)
| OutOfFuel.      (* recursion deeper than the fuel *)
Arguments Ok {A} a.
Arguments Err {A}.
Arguments Panic {A}.
Arguments OutOfFuel {A}.

(** Hash sets of items *)
Definition mem (x : N) (s : list N) : bool := existsb (N.eqb x) s.
Definition set_insert (x : N) (s : list N) : list N := if mem x s then s else x :: s.
Fixpoint set_remove (x : N) (s : list N) : list N :=
  match s with
  | [] => []
  | y :: r => if N.eqb x y then set_remove x r else y :: set_remove x r
  end.

(** `for d in l { p(d)? }` *)
Fixpoint for_each {S : Type} (p : S -> N -> res S) (s : S) (l : list N) : res S :=
  match l with
  | [] => Ok s
  | x :: r => match p s x with Ok s' => for_each p s' r | e => e end
  end.

(** * The generic helper: DepOrderer { stack, seen, pending } *)
Record st : Type := mkst { stack : list N; seen : list N; pending : list N }.

(** DepOrderer::push; the call `P::process(item, self)?` is inlined as
    `for d in deps(item) { self.push(d)? }`. *)
Fixpoint push (fuel : nat) (deps : N -> list N) (s : st) (item : N) : res st :=
  match fuel with
  | O => OutOfFuel
  | S f =>
    if mem item (seen s) then Ok s                       (* if !self.seen.contains(item) {..}; Ok(()) *)
    else if mem item (pending s) then Err                (* return P::fail() *)
    else
      let s1 := mkst (stack s) (seen s) (set_insert item (pending s)) in
      match for_each (push f deps) s1 (deps item) with   (* P::process(item, self)? *)
      | Ok s2 =>
        if mem item (pending s2)                         (* if !self.pending.remove(item) { fail } *)
        then Ok (mkst (stack s2 ++ [item]) (set_insert item (seen s2)) (set_remove item (pending s2)))
        else Err
      | e => e
      end
  end.

(** DepOrderer::order *)
Definition order_pending (fuel : nat) (deps : N -> list N) (items : list N) : res (list N) :=
  match for_each (push fuel deps) (mkst [] [] []) items with
  | Ok s => Ok (stack s)
  | Err => Err
  | Panic => Panic
  | OutOfFuel => OutOfFuel
  end.

(** * The hand-rolled orderers: { stack, seen } only, no error return *)
Record st0 : Type := mkst0 { stack0 : list N; seen0 : list N }.

(** GdsDepOrder resolves a dependency by name BEFORE the recursive call:
    `self.push(self.strukts.get(&x.name).unwrap())`. *)
Definition lookup_then {S : Type} (defined : N -> bool) (p : S -> N -> res S) (s : S) (d : N) : res S :=
  if defined d then p s d else Panic.

Fixpoint npush (fuel : nat) (defined : N -> bool) (deps : N -> list N) (s : st0) (item : N) : res st0 :=
  match fuel with
  | O => OutOfFuel
  | S f =>
    if mem item (seen0 s) then Ok s
    else
      match for_each (lookup_then defined (npush f defined deps)) s (deps item) with
      | Ok s2 => Ok (mkst0 (stack0 s2 ++ [item]) (set_insert item (seen0 s2)))
      | e => e
      end
  end.

Definition order_nopending (fuel : nat) (defined : N -> bool) (deps : N -> list N) (items : list N)
  : res (list N) :=
  match for_each (npush fuel defined deps) (mkst0 [] []) items with
  | Ok s => Ok (stack0 s)
  | Err => Err
  | Panic => Panic
  | OutOfFuel => OutOfFuel
  end.

Definition all_defined : N -> bool := fun _ => true.
