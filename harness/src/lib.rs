//! l21h: shared driver for the per-property harness binaries (src/bin/cXX.rs).
//! Each binary reads cases from stdin (one JSON value per line) and prints one JSON result per line.
//! Panics are caught and reported as {"panic": msg}. Result lines start with "@@" so that anything the
//! library itself prints to stdout (some exporters use println!) can be told apart.
pub use serde_json::{json, Value};
use std::io::{BufRead, Write};
use std::panic::{catch_unwind, AssertUnwindSafe};

pub fn main_loop(run: fn(&Value) -> Value) {
    // Silence the default panic message; the payload is captured below.
    std::panic::set_hook(Box::new(|_| {}));
    let stdin = std::io::stdin();
    let stdout = std::io::stdout();
    let mut out = std::io::BufWriter::new(stdout.lock());
    for line in stdin.lock().lines() {
        let line = line.expect("read stdin");
        if line.trim().is_empty() {
            continue;
        }
        let case: Value = match serde_json::from_str(&line) {
            Ok(v) => v,
            Err(e) => {
                writeln!(out, "@@{}", json!({"harness_error": format!("bad case json: {}", e)})).unwrap();
                out.flush().unwrap();
                continue;
            }
        };
        let res = catch_unwind(AssertUnwindSafe(|| run(&case)));
        let v = match res {
            Ok(v) => v,
            Err(p) => {
                let msg = if let Some(s) = p.downcast_ref::<&str>() {
                    s.to_string()
                } else if let Some(s) = p.downcast_ref::<String>() {
                    s.clone()
                } else {
                    "panic".to_string()
                };
                json!({ "panic": msg })
            }
        };
        writeln!(out, "@@{}", v).unwrap();
        // flush per case so that a later abort (stack overflow) does not lose earlier results
        out.flush().unwrap();
    }
    out.flush().unwrap();
}
