//! l21h: runs Layout21 entry points on cases read from stdin (one JSON value per line)
//! and prints one JSON result per line. Panics are caught and reported as {"panic": msg}.
use serde_json::{json, Value};
use std::io::{BufRead, Write};
use std::panic::{catch_unwind, AssertUnwindSafe};

mod c15;

fn dispatch(cmd: &str, case: &Value) -> Value {
    match cmd {
        "c15" => c15::run(case),
        _ => json!({"harness_error": format!("unknown subcommand {}", cmd)}),
    }
}

fn main() {
    let args: Vec<String> = std::env::args().collect();
    if args.len() < 2 {
        eprintln!("usage: l21h <subcommand> < cases.jsonl > results.jsonl");
        std::process::exit(2);
    }
    let cmd = args[1].clone();
    // Silence the default panic message; the payload is captured below.
    std::panic::set_hook(Box::new(|_| {}));
    let stdin = std::io::stdin();
    let stdout = std::io::stdout();
    let mut out = std::io::BufWriter::new(stdout.lock());
    for line in stdin.lock().lines() {
        let line = line.expect("read stdin");
        if line.trim().is_empty() {
            continue;
        }
        let case: Value = match serde_json::from_str(&line) {
            Ok(v) => v,
            Err(e) => {
                writeln!(out, "{}", json!({"harness_error": format!("bad case json: {}", e)})).unwrap();
                continue;
            }
        };
        let res = catch_unwind(AssertUnwindSafe(|| dispatch(&cmd, &case)));
        let v = match res {
            Ok(v) => v,
            Err(p) => {
                let msg = if let Some(s) = p.downcast_ref::<&str>() {
                    s.to_string()
                } else if let Some(s) = p.downcast_ref::<String>() {
                    s.clone()
                } else {
                    "panic".to_string()
                };
                json!({ "panic": msg })
            }
        };
        writeln!(out, "{}", v).unwrap();
    }
    out.flush().unwrap();
}
