//! C01 / C02 / C03 / C10: gds21 GdsLibrary::write and GdsLibrary::from_bytes on JSON-described
//! libraries and hex byte strings. Doubles travel as `to_bits()` integers, strings as hex of
//! their UTF-8 bytes. Each stage (write, read, re-read) catches its own panic so that the
//! result of earlier stages is not lost.
use gds21::*;
use l21h::{json, Value};
use std::panic::{catch_unwind, AssertUnwindSafe};

fn unhex(s: &str) -> Vec<u8> {
    let b = s.as_bytes();
    (0..b.len() / 2)
        .map(|i| {
            let h = |c: u8| -> u8 {
                match c {
                    b'0'..=b'9' => c - b'0',
                    b'a'..=b'f' => c - b'a' + 10,
                    b'A'..=b'F' => c - b'A' + 10,
                    _ => 0,
                }
            };
            h(b[2 * i]) * 16 + h(b[2 * i + 1])
        })
        .collect()
}
fn hex(b: &[u8]) -> String {
    let mut s = String::with_capacity(b.len() * 2);
    for x in b {
        s.push_str(&format!("{:02x}", x));
    }
    s
}
/// bytes of a case: {"hex": "..."} or {"parts": [{"hex": ..} | {"rep": [byte, n]}, ...]}
fn bytes_of(v: &Value) -> Vec<u8> {
    if let Some(s) = v.as_str() {
        return unhex(s);
    }
    let mut out = Vec::new();
    if let Some(parts) = v.as_array() {
        for p in parts {
            if let Some(s) = p.as_str() {
                out.extend(unhex(s));
            } else if let Some(r) = p.as_array() {
                let b = r[0].as_u64().unwrap() as u8;
                let n = r[1].as_u64().unwrap() as usize;
                out.extend(std::iter::repeat(b).take(n));
            }
        }
    }
    out
}
fn string_of(v: &Value) -> String {
    String::from_utf8(bytes_of(v)).expect("case string must be valid UTF-8")
}
fn i16_of(v: &Value) -> i16 {
    v.as_i64().expect("i16") as i16
}
fn i32_of(v: &Value) -> i32 {
    v.as_i64().expect("i32") as i32
}
fn f64_of(v: &Value) -> f64 {
    f64::from_bits(v.as_u64().expect("f64 bits"))
}
fn opt<T>(v: &Value, f: impl Fn(&Value) -> T) -> Option<T> {
    if v.is_null() {
        None
    } else {
        Some(f(v))
    }
}
fn dt_of(v: &[Value]) -> GdsDateTime {
    GdsDateTime {
        year: i16_of(&v[0]),
        month: i16_of(&v[1]),
        day: i16_of(&v[2]),
        hour: i16_of(&v[3]),
        minute: i16_of(&v[4]),
        second: i16_of(&v[5]),
    }
}
fn dates_of(v: &Value) -> GdsDateTimes {
    let a = v.as_array().expect("dates");
    GdsDateTimes {
        modified: dt_of(&a[0..6]),
        accessed: dt_of(&a[6..12]),
    }
}
fn points_of(v: &Value) -> Vec<GdsPoint> {
    // {"rep": [x, y, n]} or flat list
    if let Some(r) = v.get("rep") {
        let x = i32_of(&r[0]);
        let y = i32_of(&r[1]);
        let n = r[2].as_u64().unwrap() as usize;
        return vec![GdsPoint::new(x, y); n];
    }
    let a = v.as_array().expect("xy");
    (0..a.len() / 2)
        .map(|i| GdsPoint::new(i32_of(&a[2 * i]), i32_of(&a[2 * i + 1])))
        .collect()
}
fn point_of(v: &Value) -> GdsPoint {
    GdsPoint::new(i32_of(&v[0]), i32_of(&v[1]))
}
fn bits_of(v: &Value) -> (u8, u8) {
    (v[0].as_u64().unwrap() as u8, v[1].as_u64().unwrap() as u8)
}
fn strans_of(v: &Value) -> GdsStrans {
    GdsStrans {
        reflected: v["r"].as_bool().unwrap(),
        abs_mag: v["am"].as_bool().unwrap(),
        abs_angle: v["aa"].as_bool().unwrap(),
        mag: opt(&v["mag"], f64_of),
        angle: opt(&v["angle"], f64_of),
    }
}
fn props_of(v: &Value) -> Vec<GdsProperty> {
    v.as_array()
        .map(|a| {
            a.iter()
                .map(|p| GdsProperty {
                    attr: i16_of(&p[0]),
                    value: string_of(&p[1]),
                })
                .collect()
        })
        .unwrap_or_default()
}
fn elem_of(v: &Value) -> GdsElement {
    let elflags = opt(&v["elflags"], |x| {
        let b = bits_of(x);
        GdsElemFlags(b.0, b.1)
    });
    let plex = opt(&v["plex"], |x| GdsPlex(i32_of(x)));
    let properties = props_of(&v["props"]);
    match v["k"].as_str().expect("k") {
        "boundary" => GdsElement::GdsBoundary(GdsBoundary {
            layer: i16_of(&v["layer"]),
            datatype: i16_of(&v["datatype"]),
            xy: points_of(&v["xy"]),
            elflags,
            plex,
            properties,
        }),
        "path" => GdsElement::GdsPath(GdsPath {
            layer: i16_of(&v["layer"]),
            datatype: i16_of(&v["datatype"]),
            xy: points_of(&v["xy"]),
            width: opt(&v["width"], i32_of),
            path_type: opt(&v["path_type"], i16_of),
            begin_extn: opt(&v["begin_extn"], i32_of),
            end_extn: opt(&v["end_extn"], i32_of),
            elflags,
            plex,
            properties,
        }),
        "sref" => GdsElement::GdsStructRef(GdsStructRef {
            name: string_of(&v["name"]),
            xy: point_of(&v["xy"]),
            strans: opt(&v["strans"], strans_of),
            elflags,
            plex,
            properties,
        }),
        "aref" => {
            let p = points_of(&v["xy"]);
            GdsElement::GdsArrayRef(GdsArrayRef {
                name: string_of(&v["name"]),
                xy: [p[0].clone(), p[1].clone(), p[2].clone()],
                cols: i16_of(&v["cols"]),
                rows: i16_of(&v["rows"]),
                strans: opt(&v["strans"], strans_of),
                elflags,
                plex,
                properties,
            })
        }
        "text" => GdsElement::GdsTextElem(GdsTextElem {
            string: string_of(&v["string"]),
            layer: i16_of(&v["layer"]),
            texttype: i16_of(&v["texttype"]),
            xy: point_of(&v["xy"]),
            presentation: opt(&v["presentation"], |x| {
                let b = bits_of(x);
                GdsPresentation(b.0, b.1)
            }),
            path_type: opt(&v["path_type"], i16_of),
            width: opt(&v["width"], i32_of),
            strans: opt(&v["strans"], strans_of),
            elflags,
            plex,
            properties,
        }),
        "node" => GdsElement::GdsNode(GdsNode {
            layer: i16_of(&v["layer"]),
            nodetype: i16_of(&v["nodetype"]),
            xy: points_of(&v["xy"]),
            elflags,
            plex,
            properties,
        }),
        "box" => {
            let p = points_of(&v["xy"]);
            GdsElement::GdsBox(GdsBox {
                layer: i16_of(&v["layer"]),
                boxtype: i16_of(&v["boxtype"]),
                xy: [p[0].clone(), p[1].clone(), p[2].clone(), p[3].clone(), p[4].clone()],
                elflags,
                plex,
                properties,
            })
        }
        k => panic!("harness: bad element kind {}", k),
    }
}
fn lib_of(v: &Value) -> GdsLibrary {
    let mut lib = GdsLibrary::new(string_of(&v["name"]));
    lib.version = i16_of(&v["version"]);
    lib.dates = dates_of(&v["dates"]);
    lib.units = GdsUnits(f64_of(&v["units"][0]), f64_of(&v["units"][1]));
    for s in v["structs"].as_array().expect("structs") {
        let mut st = GdsStruct::new(string_of(&s["name"]));
        st.dates = dates_of(&s["dates"]);
        for e in s["elems"].as_array().expect("elems") {
            st.elems.push(elem_of(e));
        }
        lib.structs.push(st);
    }
    lib
}

// ---- output
fn jdates(d: &GdsDateTimes) -> Value {
    let f = |t: &GdsDateTime| vec![t.year, t.month, t.day, t.hour, t.minute, t.second];
    let mut v = f(&d.modified);
    v.extend(f(&d.accessed));
    json!(v)
}
fn jpoints(p: &[GdsPoint]) -> Value {
    let mut v = Vec::with_capacity(p.len() * 2);
    for q in p {
        v.push(q.x);
        v.push(q.y);
    }
    json!(v)
}
fn jstr(s: &str) -> Value {
    json!(hex(s.as_bytes()))
}
fn jstrans(s: &Option<GdsStrans>) -> Value {
    match s {
        None => Value::Null,
        Some(s) => json!({"r": s.reflected, "am": s.abs_mag, "aa": s.abs_angle,
            "mag": s.mag.map(|x| x.to_bits()), "angle": s.angle.map(|x| x.to_bits())}),
    }
}
fn jprops(p: &[GdsProperty]) -> Value {
    json!(p.iter().map(|q| json!([q.attr, hex(q.value.as_bytes())])).collect::<Vec<_>>())
}
fn jflags(e: &Option<GdsElemFlags>) -> Value {
    match e {
        None => Value::Null,
        Some(e) => json!([e.0, e.1]),
    }
}
fn jplex(e: &Option<GdsPlex>) -> Value {
    match e {
        None => Value::Null,
        Some(e) => json!(e.0),
    }
}
fn jelem(e: &GdsElement) -> Value {
    match e {
        GdsElement::GdsBoundary(b) => json!({"k": "boundary", "layer": b.layer, "datatype": b.datatype, "xy": jpoints(&b.xy),
            "elflags": jflags(&b.elflags), "plex": jplex(&b.plex), "props": jprops(&b.properties)}),
        GdsElement::GdsPath(b) => json!({"k": "path", "layer": b.layer, "datatype": b.datatype, "xy": jpoints(&b.xy),
            "width": b.width, "path_type": b.path_type, "begin_extn": b.begin_extn, "end_extn": b.end_extn,
            "elflags": jflags(&b.elflags), "plex": jplex(&b.plex), "props": jprops(&b.properties)}),
        GdsElement::GdsStructRef(b) => json!({"k": "sref", "name": jstr(&b.name), "xy": [b.xy.x, b.xy.y], "strans": jstrans(&b.strans),
            "elflags": jflags(&b.elflags), "plex": jplex(&b.plex), "props": jprops(&b.properties)}),
        GdsElement::GdsArrayRef(b) => json!({"k": "aref", "name": jstr(&b.name), "xy": jpoints(&b.xy), "cols": b.cols, "rows": b.rows,
            "strans": jstrans(&b.strans),
            "elflags": jflags(&b.elflags), "plex": jplex(&b.plex), "props": jprops(&b.properties)}),
        GdsElement::GdsTextElem(b) => json!({"k": "text", "string": jstr(&b.string), "layer": b.layer, "texttype": b.texttype,
            "xy": [b.xy.x, b.xy.y],
            "presentation": b.presentation.as_ref().map(|p| vec![p.0, p.1]), "path_type": b.path_type, "width": b.width,
            "strans": jstrans(&b.strans),
            "elflags": jflags(&b.elflags), "plex": jplex(&b.plex), "props": jprops(&b.properties)}),
        GdsElement::GdsNode(b) => json!({"k": "node", "layer": b.layer, "nodetype": b.nodetype, "xy": jpoints(&b.xy),
            "elflags": jflags(&b.elflags), "plex": jplex(&b.plex), "props": jprops(&b.properties)}),
        GdsElement::GdsBox(b) => json!({"k": "box", "layer": b.layer, "boxtype": b.boxtype, "xy": jpoints(&b.xy),
            "elflags": jflags(&b.elflags), "plex": jplex(&b.plex), "props": jprops(&b.properties)}),
    }
}
fn jlib(l: &GdsLibrary) -> Value {
    json!({"name": jstr(&l.name), "version": l.version, "dates": jdates(&l.dates),
        "units": [l.units.0.to_bits(), l.units.1.to_bits()],
        "structs": l.structs.iter().map(|s| json!({"name": jstr(&s.name), "dates": jdates(&s.dates),
            "elems": s.elems.iter().map(jelem).collect::<Vec<_>>()})).collect::<Vec<_>>()})
}
fn ekind(e: &GdsError) -> &'static str {
    match e {
        GdsError::RecordDecode(..) => "RecordDecode",
        GdsError::RecordLen(..) => "RecordLen",
        GdsError::InvalidDataType(..) => "InvalidDataType",
        GdsError::InvalidRecordType(..) => "InvalidRecordType",
        GdsError::Unsupported(..) => "Unsupported",
        GdsError::Parse { .. } => "Parse",
        GdsError::Boxed(..) => "Boxed",
        GdsError::Str(..) => "Str",
    }
}
fn panic_msg(p: Box<dyn std::any::Any + Send>) -> String {
    if let Some(s) = p.downcast_ref::<&str>() {
        s.to_string()
    } else if let Some(s) = p.downcast_ref::<String>() {
        s.clone()
    } else {
        "panic".to_string()
    }
}

enum Out<T> {
    Ok(T),
    Err(String),
    Panic(String),
}
fn do_write(lib: &GdsLibrary) -> Out<Vec<u8>> {
    let r = catch_unwind(AssertUnwindSafe(|| {
        let mut buf: Vec<u8> = Vec::new();
        lib.write(&mut buf).map(|_| buf)
    }));
    match r {
        Ok(Ok(b)) => Out::Ok(b),
        Ok(Err(e)) => Out::Err(ekind(&e).to_string()),
        Err(p) => Out::Panic(panic_msg(p)),
    }
}
fn do_read(bytes: &[u8]) -> Out<GdsLibrary> {
    let r = catch_unwind(AssertUnwindSafe(|| GdsLibrary::from_bytes(bytes)));
    match r {
        Ok(Ok(l)) => Out::Ok(l),
        Ok(Err(e)) => Out::Err(ekind(&e).to_string()),
        Err(p) => Out::Panic(panic_msg(p)),
    }
}
/// scratch file of this process for the file-system entry points (GdsLibrary::save / open / load)
fn scratch_path() -> std::path::PathBuf {
    let dir = std::path::Path::new("/verif/work/c01/tmp");
    std::fs::create_dir_all(dir).unwrap();
    dir.join(format!("f{}.gds", std::process::id()))
}
/// GdsLibrary::save, then the bytes found in the file
fn do_save(lib: &GdsLibrary, path: &std::path::Path) -> Out<Vec<u8>> {
    let r = catch_unwind(AssertUnwindSafe(|| lib.save(path)));
    match r {
        Ok(Ok(())) => Out::Ok(std::fs::read(path).expect("harness: read scratch file back")),
        Ok(Err(e)) => Out::Err(ekind(&e).to_string()),
        Err(p) => Out::Panic(panic_msg(p)),
    }
}
fn do_open(path: &std::path::Path, alias: bool) -> Out<GdsLibrary> {
    let r = catch_unwind(AssertUnwindSafe(|| {
        if alias {
            GdsLibrary::load(path)
        } else {
            GdsLibrary::open(path)
        }
    }));
    match r {
        Ok(Ok(l)) => Out::Ok(l),
        Ok(Err(e)) => Out::Err(ekind(&e).to_string()),
        Err(p) => Out::Panic(panic_msg(p)),
    }
}
fn jw(o: &Out<Vec<u8>>, want_bytes: bool) -> Value {
    match o {
        Out::Ok(b) => {
            if want_bytes {
                json!({"ok": hex(b)})
            } else {
                json!({"ok": b.len()})
            }
        }
        Out::Err(e) => json!({ "err": e }),
        Out::Panic(m) => json!({ "panic": m }),
    }
}
fn jr(o: &Out<GdsLibrary>) -> Value {
    match o {
        Out::Ok(l) => json!({"ok": jlib(l)}),
        Out::Err(e) => json!({ "err": e }),
        Out::Panic(m) => json!({ "panic": m }),
    }
}

fn run(case: &Value) -> Value {
    let op = case["op"].as_str().unwrap_or("");
    match op {
        // library -> bytes
        "write" => {
            let lib = lib_of(&case["lib"]);
            json!({"w": jw(&do_write(&lib), true)})
        }
        // library -> GdsLibrary::save(file) -> the bytes found in the file afterwards (C02: what is on disk after a save is the stream).
        // `old_len` > 0: the file exists already and holds that many bytes of an older, longer content; 0: it does not exist.
        "save" => {
            let lib = lib_of(&case["lib"]);
            let path = scratch_path();
            let old_len = case["old_len"].as_u64().unwrap_or(0) as usize;
            let _ = std::fs::remove_file(&path);
            if old_len > 0 {
                std::fs::write(&path, vec![0xEEu8; old_len]).expect("harness: write scratch file");
            }
            let w = do_save(&lib, &path);
            let _ = std::fs::remove_file(&path);
            json!({"w": jw(&w, true)})
        }
        // library -> bytes -> library
        "write_read" => {
            let lib = lib_of(&case["lib"]);
            let w = do_write(&lib);
            let nob = case["nobytes"].as_bool().unwrap_or(false);
            let mut out = json!({"w": jw(&w, !nob)});
            if let Out::Ok(b) = &w {
                let r = do_read(b);
                // Rust `==` between what was written and what was read
                if let Out::Ok(l2) = &r {
                    out["eq"] = json!(*l2 == lib);
                }
                out["r"] = jr(&r);
            }
            out
        }
        // library -> GdsLibrary::save(file) -> bytes of the file -> GdsLibrary::open(file): the same shape of result as
        // write_read. `old_len` > 0: the file exists already and holds that many bytes of an older, longer content
        // (a save that does not replace the whole file leaves a tail); 0: the file does not exist.
        "save_open" => {
            let lib = lib_of(&case["lib"]);
            let path = scratch_path();
            let old_len = case["old_len"].as_u64().unwrap_or(0) as usize;
            let _ = std::fs::remove_file(&path);
            if old_len > 0 {
                std::fs::write(&path, vec![0xEEu8; old_len]).expect("harness: write scratch file");
            }
            let w = do_save(&lib, &path);
            let mut out = json!({"w": jw(&w, true)});
            if let Out::Ok(_) = &w {
                let r = do_open(&path, false);
                if let Out::Ok(l2) = &r {
                    out["eq"] = json!(*l2 == lib);
                }
                out["r"] = jr(&r);
            }
            let _ = std::fs::remove_file(&path);
            out
        }
        // bytes -> file -> GdsLibrary::load(file) (the alias of open)
        "read_file" => {
            let b = bytes_of(&case["bytes"]);
            let path = scratch_path();
            std::fs::write(&path, &b).expect("harness: write scratch file");
            let r = do_open(&path, true);
            let _ = std::fs::remove_file(&path);
            json!({"r": jr(&r)})
        }
        // bytes -> library
        "read" => {
            let b = bytes_of(&case["bytes"]);
            json!({"r": jr(&do_read(&b))})
        }
        // bytes -> library -> bytes -> library
        "read_write_read" => {
            let b = bytes_of(&case["bytes"]);
            let r = do_read(&b);
            let mut out = json!({"r": jr(&r)});
            if let Out::Ok(l) = &r {
                let w = do_write(l);
                out["w"] = jw(&w, false);
                if let Out::Ok(b2) = &w {
                    let r2 = do_read(b2);
                    if let Out::Ok(l2) = &r2 {
                        out["eq"] = json!(l2 == l);
                    }
                    out["r2"] = jr(&r2);
                }
            }
            out
        }
        // time of reading n copies of a unit stream body between a prologue and an epilogue (linearity measurement)
        "read_time" => {
            let pre = bytes_of(&case["pre"]);
            let unit = bytes_of(&case["unit"]);
            let post = bytes_of(&case["post"]);
            let n = case["n"].as_u64().unwrap() as usize;
            let mut b = pre.clone();
            for _ in 0..n {
                b.extend_from_slice(&unit);
            }
            b.extend_from_slice(&post);
            let t0 = std::time::Instant::now();
            let r = do_read(&b);
            let dt = t0.elapsed().as_nanos() as u64;
            let tag = match &r {
                Out::Ok(l) => format!("ok:{}", l.structs.len()),
                Out::Err(e) => format!("err:{}", e),
                Out::Panic(m) => format!("panic:{}", m),
            };
            json!({"len": b.len(), "ns": dt, "r": tag})
        }
        _ => json!({"harness_error": "bad op"}),
    }
}

fn main() {
    l21h::main_loop(run);
}
