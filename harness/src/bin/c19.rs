//! C19 harness entry (not implemented yet).
use l21h::{json, Value};

fn run(_case: &Value) -> Value {
    json!({"harness_error": "not implemented"})
}

fn main() {
    l21h::main_loop(run);
}
