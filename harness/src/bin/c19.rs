//! C19: tetris library <-> vlsir.tetris protobuf messages.
//!
//! op "rt":  build a tetris `Library` from the JSON description through the public API (a heap of
//!           cell objects, instances pointing at heap indices, a listing of heap indices),
//!           `ProtoExporter::export`, print the message field by field, `ProtoLibImporter::import`
//!           it, print the imported library.
//! op "imp": build a `vlsir.tetris.Library` message directly from its JSON description (same shape
//!           as the printed one), `ProtoLibImporter::import`, print the library.
//! Each stage runs under its own `catch_unwind`: {"ok": ..} | {"err": msg} | {"panic": msg}.
use l21h::{json, Value};
use layout21protos as proto;
use layout21tetris::abs::{Abstract, Port, PortKind, Side as AbsSide};
use layout21tetris::cell::Cell;
use layout21tetris::conv::proto::{ProtoExporter, ProtoLibImporter};
use layout21tetris::coords::{PrimPitches, Xy};
use layout21tetris::instance::Instance;
use layout21tetris::layout::Layout;
use layout21tetris::library::Library;
use layout21tetris::outline::Outline;
use layout21tetris::placement::{Align, Place, Placeable, RelativePlace, Separation, Side};
use layout21tetris::raw::Dir;
use layout21tetris::stack::{Assign, RelZ};
use layout21tetris::tracks::{TrackCross, TrackRef};
use layout21tetris::utils::Ptr;
use proto::tetris as tp;
use std::panic::{catch_unwind, AssertUnwindSafe};

// ---------------------------------------------------------------- JSON -> tetris
fn dir(v: &Value) -> Dir {
    if v.as_i64().unwrap() == 0 {
        Dir::Horiz
    } else {
        Dir::Vert
    }
}
fn pp(v: &Value) -> PrimPitches {
    PrimPitches { dir: dir(&v[0]), num: v[1].as_i64().unwrap() as isize }
}
fn pps(v: &Value) -> Vec<PrimPitches> {
    v.as_array().unwrap().iter().map(pp).collect()
}
fn us(v: &Value) -> usize {
    v.as_u64().expect("usize") as usize
}
fn outline(ox: &Value, oy: &Value) -> Outline {
    // fields are pub: no validation on this path (validation is the importer's job)
    Outline { x: pps(ox), y: pps(oy) }
}
fn cross(v: &[Value]) -> TrackCross {
    TrackCross::new(TrackRef::new(us(&v[0]), us(&v[1])), TrackRef::new(us(&v[2]), us(&v[3])))
}
fn s(v: &Value) -> String {
    v.as_str().unwrap().to_string()
}
fn build_lib(case: &Value) -> Library {
    let heap = case["heap"].as_array().unwrap();
    // first every cell object, so that instances can point anywhere (also backwards: cycles)
    let ptrs: Vec<Ptr<Cell>> = heap.iter().map(|c| Ptr::new(Cell::new(s(&c["name"])))).collect();
    for (k, c) in heap.iter().enumerate() {
        let mut cell = Cell::new(s(&c["name"]));
        if !c["layout"].is_null() {
            let l = &c["layout"];
            let mut lay = Layout::new(s(&l["name"]), us(&l["metals"]), outline(&l["ox"], &l["oy"]));
            for i in l["insts"].as_array().unwrap() {
                let target = ptrs[us(&i["cell"])].clone();
                let loc: Place<Xy<PrimPitches>> = if i["loc"].is_null() {
                    // a relative place: next to a (detached) instance of the same cell
                    let other = Ptr::new(Instance {
                        inst_name: "other".into(),
                        cell: target.clone(),
                        loc: Place::Abs(Xy::new(PrimPitches::x(0), PrimPitches::y(0))),
                        reflect_horiz: false,
                        reflect_vert: false,
                    });
                    Place::Rel(RelativePlace {
                        to: Placeable::Instance(other),
                        side: Side::Right,
                        align: Align::Center,
                        sep: Separation::default(),
                    })
                } else {
                    Place::Abs(Xy::new(pp(&i["loc"][0]), pp(&i["loc"][1])))
                };
                lay.instances.add(Instance {
                    inst_name: s(&i["name"]),
                    cell: target,
                    loc,
                    reflect_horiz: i["rh"].as_bool().unwrap(),
                    reflect_vert: i["rv"].as_bool().unwrap(),
                });
            }
            for a in l["assigns"].as_array().unwrap() {
                let a = a.as_array().unwrap();
                lay.assignments.push(Assign::new(s(&a[0]), cross(&a[1..5])));
            }
            for c in l["cuts"].as_array().unwrap() {
                lay.cuts.push(cross(c.as_array().unwrap()));
            }
            cell.layout = Some(lay);
        }
        if !c["abs"].is_null() {
            let a = &c["abs"];
            let mut abs = Abstract::new(s(&a["name"]), us(&a["metals"]), outline(&a["ox"], &a["oy"]));
            for p in a["ports"].as_array().unwrap() {
                let side = |v: &Value| if v.as_i64().unwrap() == 0 { AbsSide::BottomOrLeft } else { AbsSide::TopOrRight };
                let kind = match p["kind"].as_str().unwrap() {
                    "edge" => PortKind::Edge { layer: us(&p["layer"]), track: us(&p["track"]), side: side(&p["side"]) },
                    "ztopedge" => PortKind::ZTopEdge {
                        track: us(&p["track"]),
                        side: side(&p["side"]),
                        into: (us(&p["into"]), if p["above"].as_bool().unwrap() { RelZ::Above } else { RelZ::Below }),
                    },
                    _ => PortKind::ZTopInner { locs: Vec::new() },
                };
                abs.ports.push(Port { name: s(&p["name"]), kind });
            }
            cell.abs = Some(abs);
        }
        *ptrs[k].write().unwrap() = cell;
    }
    let mut lib = Library::new(s(&case["name"]));
    for i in case["listing"].as_array().unwrap() {
        lib.cells.push(ptrs[us(i)].clone());
    }
    lib
}

// ---------------------------------------------------------------- tetris -> JSON
fn dirj(d: Dir) -> i64 {
    match d {
        Dir::Horiz => 0,
        Dir::Vert => 1,
    }
}
fn ppj(p: &PrimPitches) -> Value {
    json!([dirj(p.dir), p.num as i64])
}
fn crossj(c: &TrackCross) -> Value {
    json!([c.track.layer as u64, c.track.track as u64, c.cross.layer as u64, c.cross.track as u64])
}
fn print_lib(lib: &Library) -> Value {
    let mut cells = Vec::new();
    for cp in lib.cells.iter() {
        let cell = cp.read().unwrap();
        let lay = match &cell.layout {
            None => Value::Null,
            Some(l) => {
                let mut insts = Vec::new();
                for ip in l.instances.iter() {
                    let i = ip.read().unwrap();
                    let idx = lib.cells.iter().position(|p| *p == i.cell).map(|k| k as i64).unwrap_or(-1);
                    let cname = if i.cell == *cp { cell.name.clone() } else { i.cell.read().unwrap().name.clone() };
                    let loc = match &i.loc {
                        Place::Abs(xy) => json!([ppj(&xy.x), ppj(&xy.y)]),
                        Place::Rel(_) => Value::Null,
                    };
                    insts.push(json!({"name": i.inst_name, "cell": idx, "cellname": cname, "loc": loc,
                                      "rh": i.reflect_horiz, "rv": i.reflect_vert}));
                }
                let assigns: Vec<Value> = l.assignments.iter().map(|a| json!({"net": a.net, "at": crossj(&a.at)})).collect();
                let cuts: Vec<Value> = l.cuts.iter().map(crossj).collect();
                json!({"name": l.name, "metals": l.metals as u64,
                       "ox": l.outline.x.iter().map(ppj).collect::<Vec<_>>(),
                       "oy": l.outline.y.iter().map(ppj).collect::<Vec<_>>(),
                       "insts": insts, "assigns": assigns, "cuts": cuts, "nplaces": l.places.len()})
            }
        };
        let abs = match &cell.abs {
            None => Value::Null,
            Some(a) => json!({"name": a.name, "metals": a.metals as u64,
                              "ox": a.outline.x.iter().map(ppj).collect::<Vec<_>>(),
                              "oy": a.outline.y.iter().map(ppj).collect::<Vec<_>>(),
                              "nports": a.ports.len()}),
        };
        cells.push(json!({"name": cell.name, "layout": lay, "abs": abs,
                          "extra": cell.interface.is_some() || cell.raw.is_some()}));
    }
    json!({"name": lib.name, "cells": cells, "rawlibs": lib.rawlibs.len()})
}

// ---------------------------------------------------------------- proto -> JSON
fn trj(t: &Option<tp::TrackRef>) -> Value {
    match t {
        None => Value::Null,
        Some(t) => json!([t.layer, t.track]),
    }
}
fn pcrossj(c: &tp::TrackCross) -> Value {
    json!({"track": trj(&c.track), "cross": trj(&c.cross)})
}
fn poutj(o: &Option<tp::Outline>) -> Value {
    match o {
        None => Value::Null,
        Some(o) => json!({"x": o.x, "y": o.y, "metals": o.metals}),
    }
}
fn print_plib(p: &tp::Library) -> Value {
    use proto::utils::reference::To;
    use tp::abstract_port::Kind;
    let mut cells = Vec::new();
    for c in &p.cells {
        let lay = match &c.layout {
            None => Value::Null,
            Some(l) => {
                let insts: Vec<Value> = l
                    .instances
                    .iter()
                    .map(|i| {
                        let cell = match &i.cell {
                            None => Value::Null,
                            Some(r) => match &r.to {
                                None => json!({ "to": Value::Null }),
                                Some(To::Local(n)) => json!({"to": ["local", n]}),
                                Some(To::External(_)) => json!({"to": ["external"]}),
                            },
                        };
                        let loc = match &i.loc {
                            None => Value::Null,
                            Some(pl) => match &pl.place {
                                None => json!({ "place": Value::Null }),
                                Some(tp::place::Place::Abs(pt)) => json!({"place": ["abs", pt.x, pt.y]}),
                                Some(tp::place::Place::Rel(_)) => json!({"place": ["rel"]}),
                            },
                        };
                        json!({"name": i.name, "cell": cell, "loc": loc, "rh": i.reflect_horiz, "rv": i.reflect_vert})
                    })
                    .collect();
                let assigns: Vec<Value> = l
                    .assignments
                    .iter()
                    .map(|a| json!({"net": a.net, "at": match &a.at { None => Value::Null, Some(c) => pcrossj(c) }}))
                    .collect();
                let cuts: Vec<Value> = l.cuts.iter().map(pcrossj).collect();
                json!({"name": l.name, "outline": poutj(&l.outline), "insts": insts, "assigns": assigns, "cuts": cuts})
            }
        };
        let abs = match &c.r#abstract {
            None => Value::Null,
            Some(a) => {
                let ports: Vec<Value> = a
                    .ports
                    .iter()
                    .map(|pt| {
                        let kind = match &pt.kind {
                            None => Value::Null,
                            Some(Kind::Edge(e)) => json!(["edge", trj(&e.track), e.side]),
                            Some(Kind::ZtopEdge(e)) => json!(["ztopedge", e.track, e.side, trj(&e.into)]),
                            Some(Kind::ZtopInner(_)) => json!(["ztopinner"]),
                        };
                        json!({"net": pt.net, "kind": kind})
                    })
                    .collect();
                json!({"name": a.name, "outline": poutj(&a.outline), "ports": ports})
            }
        };
        cells.push(json!({"name": c.name, "layout": lay, "abs": abs,
                          "extra": c.interface.is_some() || c.module.is_some()}));
    }
    json!({"domain": p.domain, "cells": cells, "author": p.author.is_some()})
}

// ---------------------------------------------------------------- JSON -> proto
fn jtr(v: &Value) -> Option<tp::TrackRef> {
    if v.is_null() {
        None
    } else {
        Some(tp::TrackRef { layer: v[0].as_i64().unwrap(), track: v[1].as_i64().unwrap() })
    }
}
fn jpcross(v: &Value) -> tp::TrackCross {
    tp::TrackCross { track: jtr(&v["track"]), cross: jtr(&v["cross"]) }
}
fn jpout(v: &Value) -> Option<tp::Outline> {
    if v.is_null() {
        return None;
    }
    let ints = |a: &Value| a.as_array().unwrap().iter().map(|x| x.as_i64().unwrap()).collect::<Vec<i64>>();
    Some(tp::Outline { x: ints(&v["x"]), y: ints(&v["y"]), metals: v["metals"].as_i64().unwrap() })
}
fn build_plib(v: &Value) -> tp::Library {
    use proto::utils::reference::To;
    use tp::abstract_port::Kind;
    let mut plib = tp::Library::default();
    plib.domain = s(&v["domain"]);
    for c in v["cells"].as_array().unwrap() {
        let mut pc = tp::Cell::default();
        pc.name = s(&c["name"]);
        if !c["layout"].is_null() {
            let l = &c["layout"];
            let mut pl = tp::Layout::default();
            pl.name = s(&l["name"]);
            pl.outline = jpout(&l["outline"]);
            for i in l["insts"].as_array().unwrap() {
                let cell = if i["cell"].is_null() {
                    None
                } else {
                    let to = &i["cell"]["to"];
                    Some(proto::utils::Reference {
                        to: if to.is_null() {
                            None
                        } else if to[0] == "local" {
                            Some(To::Local(s(&to[1])))
                        } else {
                            Some(To::External(proto::utils::QualifiedName { domain: "ext".into(), name: "x".into() }))
                        },
                    })
                };
                let loc = if i["loc"].is_null() {
                    None
                } else {
                    let p = &i["loc"]["place"];
                    Some(tp::Place {
                        place: if p.is_null() {
                            None
                        } else if p[0] == "abs" {
                            Some(tp::place::Place::Abs(proto::raw::Point::new(p[1].as_i64().unwrap(), p[2].as_i64().unwrap())))
                        } else {
                            Some(tp::place::Place::Rel(tp::RelPlace {}))
                        },
                    })
                };
                pl.instances.push(tp::Instance {
                    name: s(&i["name"]),
                    cell,
                    loc,
                    reflect_horiz: i["rh"].as_bool().unwrap(),
                    reflect_vert: i["rv"].as_bool().unwrap(),
                });
            }
            for a in l["assigns"].as_array().unwrap() {
                pl.assignments.push(tp::Assign {
                    net: s(&a["net"]),
                    at: if a["at"].is_null() { None } else { Some(jpcross(&a["at"])) },
                });
            }
            for x in l["cuts"].as_array().unwrap() {
                pl.cuts.push(jpcross(x));
            }
            pc.layout = Some(pl);
        }
        if !c["abs"].is_null() {
            let a = &c["abs"];
            let mut pa = tp::Abstract::default();
            pa.name = s(&a["name"]);
            pa.outline = jpout(&a["outline"]);
            for p in a["ports"].as_array().unwrap() {
                let k = &p["kind"];
                let kind = if k.is_null() {
                    None
                } else if k[0] == "edge" {
                    Some(Kind::Edge(tp::abstract_port::EdgePort { track: jtr(&k[1]), side: k[2].as_i64().unwrap() as i32 }))
                } else if k[0] == "ztopedge" {
                    Some(Kind::ZtopEdge(tp::abstract_port::ZTopEdgePort {
                        track: k[1].as_i64().unwrap(),
                        side: k[2].as_i64().unwrap() as i32,
                        into: jtr(&k[3]),
                    }))
                } else {
                    Some(Kind::ZtopInner(tp::abstract_port::ZTopInner { locs: Vec::new() }))
                };
                pa.ports.push(tp::AbstractPort { net: s(&p["net"]), kind });
            }
            pc.r#abstract = Some(pa);
        }
        plib.cells.push(pc);
    }
    plib
}

// ---------------------------------------------------------------- stages
fn panic_msg(p: Box<dyn std::any::Any + Send>) -> String {
    if let Some(s) = p.downcast_ref::<&str>() {
        s.to_string()
    } else if let Some(s) = p.downcast_ref::<String>() {
        s.clone()
    } else {
        "panic".to_string()
    }
}
fn import_stage(plib: &tp::Library) -> Value {
    match catch_unwind(AssertUnwindSafe(|| ProtoLibImporter::import(plib))) {
        Err(p) => json!({ "panic": panic_msg(p) }),
        Ok(Err(e)) => json!({ "err": format!("{:?}", e).chars().take(200).collect::<String>() }),
        Ok(Ok(lib)) => json!({ "ok": print_lib(&lib) }),
    }
}

fn run(case: &Value) -> Value {
    match case["op"].as_str().unwrap_or("") {
        "rt" => {
            let lib = build_lib(case);
            let exp = catch_unwind(AssertUnwindSafe(|| ProtoExporter::export(&lib)));
            match exp {
                Err(p) => json!({"export": {"panic": panic_msg(p)}}),
                Ok(Err(e)) => json!({"export": {"err": format!("{:?}", e).chars().take(200).collect::<String>()}}),
                Ok(Ok(plib)) => {
                    let pj = print_plib(&plib);
                    // the printed form must itself describe the message: rebuild it and compare
                    let same = build_plib(&pj) == plib;
                    json!({"export": {"ok": pj}, "reparse_same": same, "import": import_stage(&plib)})
                }
            }
        }
        "imp" => {
            let plib = build_plib(&case["plib"]);
            json!({"import": import_stage(&plib)})
        }
        _ => json!({"harness_error": "bad op"}),
    }
}

fn main() {
    l21h::main_loop(run);
}
