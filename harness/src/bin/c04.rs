//! C04 / C05 / C11 harness: the LEF reader and writer of lef21 through their public API.
//!
//! Ops (one JSON object per line):
//!   {"op":"parse","src":HEX}        -> {"r": RES}
//!   {"op":"rt","src":HEX}           -> {"r": RES, "w": W, "r2": RES|null, "save": S}     (read, write, read again; S: the same library
//!                                      through `save` over an existing longer file: {"same":true} | {"text":HEX,"r3":RES} | {"err"} | {"panic"})
//!   {"op":"time","src":HEX,"reps":n}-> {"ns": best-of-n nanoseconds of one read, "r": "ok"|"err"}
//!   {"op":"f64","s":HEX}            -> {"i32": bool, "f64": bool}               (lex_number's number test)
//!   {"op":"dec","s":HEX}            -> {"ok": DEC, "disp": HEX} | {"err": str}  (LefDecimal::from_str / Display)
//!   {"op":"chars"}                  -> {"ws": [[lo,hi]..], "alpha": [[lo,hi]..], "upper": [[lo,hi]..]} over all scalar values
//! RES = {"ok": LIB} | {"err": "<Debug of LefError>"} | {"panic": msg}
//! W   = {"text": HEX} | {"werr": "<Debug>"} | {"wpanic": msg}
//! Strings are hex of their UTF-8 bytes, decimals are [negative, "mantissa digits", scale], chars are scalar values.
//! `parse_str` is private in lef21, so texts go through a scratch file and `LefLibrary::open`.
use l21h::{json, Value};
use lef21::*;
use std::panic::{catch_unwind, AssertUnwindSafe};
use std::str::FromStr;

fn hex(b: &[u8]) -> String {
    let mut s = String::with_capacity(b.len() * 2);
    for x in b {
        s.push_str(&format!("{:02x}", x));
    }
    s
}
fn unhex(s: &str) -> Vec<u8> {
    let b = s.as_bytes();
    (0..b.len() / 2)
        .map(|i| u8::from_str_radix(std::str::from_utf8(&b[2 * i..2 * i + 2]).unwrap(), 16).unwrap())
        .collect()
}
fn hs(s: &str) -> Value {
    json!(hex(s.as_bytes()))
}
fn dec(d: &LefDecimal) -> Value {
    let m = d.mantissa();
    json!([d.is_sign_negative(), m.unsigned_abs().to_string(), d.scale()])
}
fn opt<T>(o: &Option<T>, f: impl Fn(&T) -> Value) -> Value {
    match o {
        Some(x) => f(x),
        None => Value::Null,
    }
}
fn list<T>(v: &[T], f: impl Fn(&T) -> Value) -> Value {
    Value::Array(v.iter().map(f).collect())
}
fn dbg<T: std::fmt::Debug>(x: &T) -> Value {
    json!(format!("{:?}", x))
}
fn point(p: &LefPoint) -> Value {
    json!({"x": dec(&p.x), "y": dec(&p.y)})
}
fn mask(m: &Option<LefMask>) -> Value {
    opt(m, |m| dec(&m.mask))
}
fn shape(s: &LefShape) -> Value {
    match s {
        LefShape::Rect(m, a, b) => json!({"v": "Rect", "a": [mask(m), point(a), point(b)]}),
        LefShape::Polygon(m, p) => json!({"v": "Polygon", "a": [mask(m), list(p, point)]}),
        LefShape::Path(m, p) => json!({"v": "Path", "a": [mask(m), list(p, point)]}),
    }
}
fn step(p: &LefStepPattern) -> Value {
    json!({"numx": dec(&p.numx), "numy": dec(&p.numy), "spacex": dec(&p.spacex), "spacey": dec(&p.spacey)})
}
fn geometry(g: &LefGeometry) -> Value {
    match g {
        LefGeometry::Shape(s) => json!({"v": "Shape", "a": [shape(s)]}),
        LefGeometry::Iterate { shape: s, pattern } => json!({"v": "Iterate", "a": [shape(s), step(pattern)]}),
    }
}
fn layer_geoms(l: &LefLayerGeometries) -> Value {
    json!({
        "layer_name": hs(&l.layer_name),
        "geometries": list(&l.geometries, geometry),
        "vias": list(&l.vias, |v| json!({"via_name": hs(&v.via_name), "pt": point(&v.pt)})),
        "except_pg_net": opt(&l.except_pg_net, |b| json!(*b)),
        "spacing": opt(&l.spacing, |s| match s {
            LefLayerSpacing::Spacing(d) => json!({"v": "Spacing", "a": [dec(d)]}),
            LefLayerSpacing::DesignRuleWidth(d) => json!({"v": "DesignRuleWidth", "a": [dec(d)]}),
        }),
        "width": opt(&l.width, dec),
    })
}
fn property(p: &LefProperty) -> Value {
    json!({"name": hs(&p.name), "value": hs(&p.value)})
}
fn port(p: &LefPort) -> Value {
    json!({"class": opt(&p.class, dbg), "layers": list(&p.layers, layer_geoms)})
}
fn pin(p: &LefPin) -> Value {
    json!({
        "name": hs(&p.name),
        "ports": list(&p.ports, port),
        "direction": opt(&p.direction, |d| match d {
            LefPinDirection::Input => json!({"v": "Input", "a": []}),
            LefPinDirection::Output { tristate } => json!({"v": "Output", "a": [*tristate]}),
            LefPinDirection::Inout => json!({"v": "Inout", "a": []}),
            LefPinDirection::FeedThru => json!({"v": "FeedThru", "a": []}),
        }),
        "use_": opt(&p.use_, dbg),
        "shape": opt(&p.shape, dbg),
        "antenna_model": opt(&p.antenna_model, dbg),
        "antenna_attrs": list(&p.antenna_attrs, |a| json!({"key": hs(&a.key), "val": dec(&a.val), "layer": opt(&a.layer, |s| hs(s))})),
        "taper_rule": opt(&p.taper_rule, |s| hs(s)),
        "supply_sensitivity": opt(&p.supply_sensitivity, |s| hs(s)),
        "ground_sensitivity": opt(&p.ground_sensitivity, |s| hs(s)),
        "must_join": opt(&p.must_join, |s| hs(s)),
        "net_expr": opt(&p.net_expr, |s| hs(s)),
        "properties": list(&p.properties, property),
    })
}
fn macro_class(c: &LefMacroClass) -> Value {
    match c {
        LefMacroClass::Cover { bump } => json!({"v": "Cover", "a": [*bump]}),
        LefMacroClass::Ring => json!({"v": "Ring", "a": []}),
        LefMacroClass::Block { tp } => json!({"v": "Block", "a": [opt(tp, dbg)]}),
        LefMacroClass::Pad { tp } => json!({"v": "Pad", "a": [opt(tp, dbg)]}),
        LefMacroClass::Core { tp } => json!({"v": "Core", "a": [opt(tp, dbg)]}),
        LefMacroClass::EndCap { tp } => json!({"v": "EndCap", "a": [dbg(tp)]}),
    }
}
fn pair(p: &(LefDecimal, LefDecimal)) -> Value {
    json!([dec(&p.0), dec(&p.1)])
}
fn mac(m: &LefMacro) -> Value {
    json!({
        "name": hs(&m.name),
        "pins": list(&m.pins, pin),
        "obs": list(&m.obs, layer_geoms),
        "class": opt(&m.class, macro_class),
        "foreign": opt(&m.foreign, |f| json!({"cell_name": hs(&f.cell_name), "pt": opt(&f.pt, point), "orient": opt(&f.orient, dbg)})),
        "origin": opt(&m.origin, point),
        "size": opt(&m.size, pair),
        "symmetry": opt(&m.symmetry, |v| list(v, dbg)),
        "site": opt(&m.site, |s| hs(s)),
        "source": opt(&m.source, dbg),
        "eeq": opt(&m.eeq, |s| hs(s)),
        "fixed_mask": m.fixed_mask,
        "properties": list(&m.properties, property),
        "density": opt(&m.density, |v| list(v, |d| json!({
            "layer_name": hs(&d.layer_name),
            "geometries": list(&d.geometries, |r| json!({"pt1": point(&r.pt1), "pt2": point(&r.pt2), "density_value": dec(&r.density_value)})),
        }))),
    })
}
fn via_shape(s: &LefViaShape) -> Value {
    match s {
        LefViaShape::Rect(m, a, b) => json!({"v": "Rect", "a": [mask(m), point(a), point(b)]}),
        LefViaShape::Polygon(m, p) => json!({"v": "Polygon", "a": [mask(m), list(p, point)]}),
    }
}
fn via_def(v: &LefViaDef, unsup: &mut bool) -> Value {
    if v.properties.is_some() {
        *unsup = true;
    }
    let data = match &v.data {
        LefViaDefData::Fixed(f) => json!({"v": "Fixed", "a": [{
            "resistance_ohms": opt(&f.resistance_ohms, dec),
            "layers": list(&f.layers, |l| json!({"layer_name": hs(&l.layer_name), "shapes": list(&l.shapes, via_shape)})),
        }]}),
        LefViaDefData::Generated(g) => {
            if g.pattern.is_some() {
                *unsup = true;
            }
            json!({"v": "Generated", "a": [{
                "via_rule_name": hs(&g.via_rule_name),
                "cut_size_x": dec(&g.cut_size_x), "cut_size_y": dec(&g.cut_size_y),
                "bot_metal_layer": hs(&g.bot_metal_layer), "cut_layer": hs(&g.cut_layer), "top_metal_layer": hs(&g.top_metal_layer),
                "cut_spacing_x": dec(&g.cut_spacing_x), "cut_spacing_y": dec(&g.cut_spacing_y),
                "bot_enc_x": dec(&g.bot_enc_x), "bot_enc_y": dec(&g.bot_enc_y),
                "top_enc_x": dec(&g.top_enc_x), "top_enc_y": dec(&g.top_enc_y),
                "rowcol": opt(&g.rowcol, |r| json!({"rows": dec(&r.rows), "cols": dec(&r.cols)})),
                "origin": opt(&g.origin, point),
                "offset": opt(&g.offset, |o| json!({"bot_x": dec(&o.bot_x), "bot_y": dec(&o.bot_y), "top_x": dec(&o.top_x), "top_y": dec(&o.top_y)})),
            }]})
        }
    };
    json!({"name": hs(&v.name), "default": v.default, "data": data})
}
fn site(s: &LefSite, unsup: &mut bool) -> Value {
    if s.row_pattern.is_some() {
        *unsup = true;
    }
    json!({"name": hs(&s.name), "class": dbg(&s.class), "size": pair(&s.size), "symmetry": opt(&s.symmetry, |v| list(v, dbg))})
}
fn units(u: &LefUnits) -> Value {
    json!({
        "database_microns": opt(&u.database_microns, |d| json!(d.0)),
        "time_ns": opt(&u.time_ns, dec),
        "capacitance_pf": opt(&u.capacitance_pf, dec),
        "resistance_ohms": opt(&u.resistance_ohms, dec),
        "power_mw": opt(&u.power_mw, dec),
        "current_ma": opt(&u.current_ma, dec),
        "voltage_volts": opt(&u.voltage_volts, dec),
        "frequency_mhz": opt(&u.frequency_mhz, dec),
    })
}
fn range(r: &Option<LefPropertyRange>) -> Value {
    opt(r, |r| json!([dec(&r.begin), dec(&r.end)]))
}
fn propdef(p: &LefPropertyDefinition) -> Value {
    match p {
        LefPropertyDefinition::LefString(t, n, v) => json!({"v": "LefString", "a": [dbg(t), hs(n), opt(v, |s| hs(s))]}),
        LefPropertyDefinition::LefReal(t, n, v, r) => json!({"v": "LefReal", "a": [dbg(t), hs(n), opt(v, dec), range(r)]}),
        LefPropertyDefinition::LefInteger(t, n, v, r) => json!({"v": "LefInteger", "a": [dbg(t), hs(n), opt(v, dec), range(r)]}),
    }
}
fn lib(l: &LefLibrary) -> Value {
    let mut unsup = l.layers.is_some()
        || l.max_via_stack.is_some()
        || l.via_rules.is_some()
        || l.via_rule_generators.is_some()
        || l.non_default_rules.is_some();
    let vias = Value::Array(l.vias.iter().map(|v| via_def(v, &mut unsup)).collect());
    let sites = Value::Array(l.sites.iter().map(|s| site(s, &mut unsup)).collect());
    json!({
        "macros": list(&l.macros, mac),
        "sites": sites,
        "vias": vias,
        "version": opt(&l.version, dec),
        "names_case_sensitive": opt(&l.names_case_sensitive, dbg),
        "no_wire_extension_at_pin": opt(&l.no_wire_extension_at_pin, dbg),
        "bus_bit_chars": opt(&l.bus_bit_chars, |c| json!([c.0 as u32, c.1 as u32])),
        "divider_char": opt(&l.divider_char, |c| json!(*c as u32)),
        "units": opt(&l.units, units),
        "fixed_mask": l.fixed_mask,
        "clearance_measure": opt(&l.clearance_measure, dbg),
        "extensions": list(&l.extensions, |e| json!({"name": hs(&e.name), "data": hs(&e.data)})),
        "manufacturing_grid": opt(&l.manufacturing_grid, dec),
        "use_min_spacing": opt(&l.use_min_spacing, dbg),
        "property_definitions": list(&l.property_definitions, propdef),
        "unsupported_set": unsup,
    })
}

fn panic_msg(p: Box<dyn std::any::Any + Send>) -> String {
    if let Some(s) = p.downcast_ref::<&str>() {
        s.to_string()
    } else if let Some(s) = p.downcast_ref::<String>() {
        s.clone()
    } else {
        "panic".to_string()
    }
}

fn scratch() -> std::path::PathBuf {
    let d = std::path::Path::new("/verif/work/lef/tmp");
    std::fs::create_dir_all(d).expect("scratch dir");
    d.join(format!("h{}.lef", std::process::id()))
}

/// Reads `src` through the public entry point. Err(msg) = panic.
fn read(src: &[u8]) -> Result<LefResult<LefLibrary>, String> {
    let p = scratch();
    std::fs::write(&p, src).expect("write scratch");
    catch_unwind(AssertUnwindSafe(|| LefLibrary::open(&p))).map_err(panic_msg)
}
fn res(r: &Result<LefResult<LefLibrary>, String>) -> Value {
    match r {
        Ok(Ok(l)) => json!({"ok": lib(l)}),
        Ok(Err(e)) => json!({"err": format!("{:?}", e)}),
        Err(m) => json!({"panic": m}),
    }
}

fn ranges(f: impl Fn(char) -> bool) -> Value {
    let mut out: Vec<(u32, u32)> = Vec::new();
    let mut cur: Option<(u32, u32)> = None;
    for cp in 0u32..=0x10FFFF {
        let hit = match char::from_u32(cp) {
            Some(c) => f(c),
            None => false,
        };
        cur = match (cur, hit) {
            (None, true) => Some((cp, cp)),
            (Some((a, _)), true) => Some((a, cp)),
            (Some(r), false) => {
                out.push(r);
                None
            }
            (None, false) => None,
        };
    }
    if let Some(r) = cur {
        out.push(r);
    }
    Value::Array(out.iter().map(|(a, b)| json!([a, b])).collect())
}

fn run(case: &Value) -> Value {
    let op = case["op"].as_str().unwrap_or("");
    match op {
        "parse" => {
            let src = unhex(case["src"].as_str().expect("src"));
            json!({"r": res(&read(&src))})
        }
        "rt" => {
            let src = unhex(case["src"].as_str().expect("src"));
            let r = read(&src);
            let rv = res(&r);
            if let Ok(Ok(l)) = r {
                let w = catch_unwind(AssertUnwindSafe(|| l.to_string())).map_err(panic_msg);
                match w {
                    Ok(Ok(t)) => {
                        let r2 = read(t.as_bytes());
                        // the same library through `save` (what the lefrw binary does), over an existing LONGER file
                        let sp = scratch().with_extension("saved.lef");
                        std::fs::write(&sp, format!("{}\n# older, longer content of this file\n{}", t, "# x\n".repeat(64))).expect("write scratch");
                        let sv = catch_unwind(AssertUnwindSafe(|| l.save(&sp))).map_err(panic_msg);
                        let save = match sv {
                            Ok(Ok(())) => match std::fs::read(&sp) {
                                Ok(b) if b == t.as_bytes() => json!({"same": true}),
                                Ok(b) => {
                                    let r3 = catch_unwind(AssertUnwindSafe(|| LefLibrary::open(&sp))).map_err(panic_msg);
                                    json!({"text": hex(&b), "r3": res(&r3)})
                                }
                                Err(e) => json!({"err": format!("file not readable: {:?}", e)}),
                            },
                            Ok(Err(e)) => json!({"err": format!("{:?}", e)}),
                            Err(m) => json!({"panic": m}),
                        };
                        json!({"r": rv, "w": {"text": hex(t.as_bytes())}, "r2": res(&r2), "save": save})
                    }
                    Ok(Err(e)) => json!({"r": rv, "w": {"werr": format!("{:?}", e)}, "r2": null}),
                    Err(m) => json!({"r": rv, "w": {"wpanic": m}, "r2": null}),
                }
            } else {
                json!({"r": rv, "w": null, "r2": null})
            }
        }
        "time" => {
            let src = unhex(case["src"].as_str().expect("src"));
            let reps = case["reps"].as_u64().unwrap_or(3);
            let p = scratch();
            std::fs::write(&p, &src).expect("write scratch");
            let mut best = u128::MAX;
            let mut ok = false;
            for _ in 0..reps {
                let t0 = std::time::Instant::now();
                let r = LefLibrary::open(&p);
                let dt = t0.elapsed().as_nanos();
                ok = r.is_ok();
                if dt < best {
                    best = dt;
                }
            }
            json!({"ns": best as u64, "r": if ok { "ok" } else { "err" }})
        }
        "f64" => {
            let b = unhex(case["s"].as_str().expect("s"));
            let s = std::str::from_utf8(&b).expect("utf8");
            json!({"i32": i32::from_str(s).is_ok(), "f64": f64::from_str(s).is_ok()})
        }
        "dec" => {
            let b = unhex(case["s"].as_str().expect("s"));
            let s = std::str::from_utf8(&b).expect("utf8");
            match LefDecimal::from_str(s) {
                Ok(d) => json!({"ok": dec(&d), "disp": hs(&d.to_string())}),
                Err(e) => json!({"err": format!("{:?}", e)}),
            }
        }
        "chars" => json!({
            "ws": ranges(|c| c.is_whitespace()),
            "alpha": ranges(|c| c.is_alphabetic()),
            // scalar values changed by to_ascii_uppercase (must be exactly a..z)
            "upper": ranges(|c| c.to_ascii_uppercase() != c),
            "asciiws": ranges(|c| c.is_ascii_whitespace()),
            "digit": ranges(|c| c.is_digit(10)),
        }),
        _ => json!({"harness_error": "bad op"}),
    }
}

fn main() {
    l21h::main_loop(run);
}
