//! C20 (extension): the raw -> LEF exporter, `layout21raw::lef::LefExporter::export`.
//!
//! Case formats (one JSON object per line):
//!   {"op":"export", "lib": RAWLIB, "reps": n}
//!       RAWLIB as in c14.rs: {"name", "units": "Micro"|"Nano"|"Angstrom"|"Pico",
//!                             "layers": [{"num", "name": s|null, "pairs": [[n, PURPOSE]..]}..],
//!                             "cells": [{"name", "layout": null|{"name","insts":[..],"elems":[..],"annots":[..]},
//!                                        "abs": null|{"name","outline":[[x,y]..],
//!                                                     "ports":[{"net","shapes":[[key,[SHAPE..]]..]}..],
//!                                                     "blockages":[[key,[SHAPE..]]..]}}..]}
//!       a layer key is the index of the layer in "layers"; an index past the table stands for the null key
//!       SHAPE = {"R":[P,P]} | {"G":[P..]} | {"P":[[P..],width]}     P = [x, y]
//!   {"op":"roundtrip", "layers": null|[[num, name|null]..], "ncs": .., "dbu": .., "macros": [MACRO..], "reps": n}
//!       the LEF library format of c16.rs; LefImporter::import, then LefExporter::export of the result
//!
//! The library is built `reps` times, the entries of every hash map inserted in a different order each time
//! (every `HashMap::new()` also draws a fresh hash seed), and exported each time.
//! Output: {"out": OUT, "unstable": bool, "runs": n}   (roundtrip: also "import": "ok" | {"err": msg} | {"panic": msg})
//! OUT = {"ok": LEFLIB, "reimport": "ok" | {"err": msg} | {"panic": msg}} | {"err": msg} | {"panic": msg}
//!       ("reimport": LefImporter::import of the exported library, with no layer table)
//! LEFLIB = {"dbu": n|null, "defaults_ok": bool, "macros": [{"name","size","pins":[{"name","ports":[[LG..]..]}],"obs":[LG..]}]}
//!       printed in the order of the vectors of the LefLibrary (nothing is sorted); "defaults_ok" says that every
//!       field that is not printed has its `Default` value (and every shape's mask is None).
//! LG = {"layer","width","spacing","epg","nvias","geoms":[G..]}  G = ["r",P,P] | ["p",[P..]] | ["w",[P..]] | ["i",G]
//! P = [DEC, DEC]   DEC = [negative: bool, "magnitude digits", scale]
use l21h::{json, Value};
use layout21raw as raw;
use lef21::LefDecimal;
use raw::utils::Ptr;
use std::collections::HashMap;
use std::panic::{catch_unwind, AssertUnwindSafe};

// ------------------------------------------------------------------ JSON -> raw (as c14.rs)
fn pt(v: &Value) -> raw::Point {
    raw::Point::new(v[0].as_i64().expect("x") as isize, v[1].as_i64().expect("y") as isize)
}
fn pts(v: &Value) -> Vec<raw::Point> {
    v.as_array().expect("points").iter().map(pt).collect()
}
fn purpose(v: &Value) -> raw::LayerPurpose {
    use raw::LayerPurpose::*;
    if let Some(s) = v.as_str() {
        return match s {
            "Drawing" => Drawing,
            "Pin" => Pin,
            "Label" => Label,
            "Obstruction" => Obstruction,
            "Outline" => Outline,
            _ => panic!("harness: bad purpose"),
        };
    }
    if let Some(k) = v.get("Other") {
        return Other(k.as_i64().unwrap() as i16);
    }
    if let Some(a) = v.get("Named") {
        return Named(a[0].as_str().unwrap().to_string(), a[1].as_i64().unwrap() as i16);
    }
    panic!("harness: bad purpose")
}
fn shape(v: &Value) -> raw::Shape {
    if let Some(r) = v.get("R") {
        return raw::Shape::Rect(raw::Rect { p0: pt(&r[0]), p1: pt(&r[1]) });
    }
    if let Some(g) = v.get("G") {
        return raw::Shape::Polygon(raw::Polygon { points: pts(g) });
    }
    if let Some(p) = v.get("P") {
        return raw::Shape::Path(raw::Path { points: pts(&p[0]), width: p[1].as_u64().expect("width") as usize });
    }
    panic!("harness: bad shape")
}
fn build_layers(spec: &Value) -> (raw::Layers, Vec<raw::LayerKey>) {
    let mut layers = raw::Layers::default();
    let mut keys = Vec::new();
    for l in spec.as_array().expect("layers") {
        let pairs: Vec<(i16, raw::LayerPurpose)> = l["pairs"]
            .as_array()
            .unwrap()
            .iter()
            .map(|p| (p[0].as_i64().unwrap() as i16, purpose(&p[1])))
            .collect();
        let mut layer = raw::Layer::from_pairs(l["num"].as_i64().unwrap() as i16, &pairs).expect("harness: from_pairs");
        layer.name = l["name"].as_str().map(|s| s.to_string());
        keys.push(layers.add(layer));
    }
    (layers, keys)
}
fn key_of(keys: &[raw::LayerKey], v: &Value) -> raw::LayerKey {
    // an index past the table stands for a key that is in no slot
    match v.as_u64() {
        Some(k) if (k as usize) < keys.len() => keys[k as usize],
        _ => raw::LayerKey::default(),
    }
}
/// the entries inserted in an order that depends on the repetition number
fn shapemap(keys: &[raw::LayerKey], v: &Value, rep: usize) -> HashMap<raw::LayerKey, Vec<raw::Shape>> {
    let mut es: Vec<&Value> = v.as_array().expect("shapemap").iter().collect();
    if !es.is_empty() {
        let k = rep % es.len();
        es.rotate_left(k);
        if (rep / es.len()) % 2 == 1 {
            es.reverse();
        }
    }
    let mut m = HashMap::new();
    for e in es {
        m.insert(key_of(keys, &e[0]), e[1].as_array().unwrap().iter().map(shape).collect());
    }
    m
}
fn build_lib(spec: &Value, rep: usize) -> raw::Library {
    let units = match spec["units"].as_str().unwrap() {
        "Micro" => raw::Units::Micro,
        "Nano" => raw::Units::Nano,
        "Angstrom" => raw::Units::Angstrom,
        "Pico" => raw::Units::Pico,
        _ => panic!("harness: bad units"),
    };
    let mut lib = raw::Library::new(spec["name"].as_str().unwrap(), units);
    let (layers, keys) = build_layers(&spec["layers"]);
    lib.layers = Ptr::new(layers);
    let cspecs = spec["cells"].as_array().expect("cells");
    let ptrs: Vec<Ptr<raw::Cell>> = cspecs
        .iter()
        .map(|c| lib.cells.insert(raw::Cell::new(c["name"].as_str().unwrap())))
        .collect();
    for (c, p) in cspecs.iter().zip(ptrs.iter()) {
        let mut cell = p.write().unwrap();
        if !c["layout"].is_null() {
            let l = &c["layout"];
            cell.layout = Some(raw::Layout {
                name: l["name"].as_str().unwrap().to_string(),
                insts: l["insts"]
                    .as_array()
                    .unwrap()
                    .iter()
                    .map(|i| raw::Instance {
                        inst_name: i["name"].as_str().unwrap().to_string(),
                        cell: ptrs[i["cell"].as_u64().unwrap() as usize].clone(),
                        loc: pt(&i["loc"]),
                        reflect_vert: i["reflect"].as_bool().unwrap(),
                        angle: i["angle"].as_u64().map(f64::from_bits),
                    })
                    .collect(),
                elems: l["elems"]
                    .as_array()
                    .unwrap()
                    .iter()
                    .map(|e| raw::Element {
                        net: e["net"].as_str().map(|s| s.to_string()),
                        layer: key_of(&keys, &e["layer"]),
                        purpose: purpose(&e["purpose"]),
                        inner: shape(&e["shape"]),
                    })
                    .collect(),
                annotations: l["annots"]
                    .as_array()
                    .unwrap()
                    .iter()
                    .map(|a| raw::TextElement { string: a[0].as_str().unwrap().to_string(), loc: pt(&a[1]) })
                    .collect(),
            });
        }
        if !c["abs"].is_null() {
            let a = &c["abs"];
            cell.abs = Some(raw::Abstract {
                name: a["name"].as_str().unwrap().to_string(),
                outline: raw::Polygon { points: pts(&a["outline"]) },
                ports: a["ports"]
                    .as_array()
                    .unwrap()
                    .iter()
                    .map(|p| raw::AbstractPort {
                        net: p["net"].as_str().unwrap().to_string(),
                        shapes: shapemap(&keys, &p["shapes"], rep),
                    })
                    .collect(),
                blockages: shapemap(&keys, &a["blockages"], rep),
            });
        }
    }
    lib
}

// ------------------------------------------------------------------ decimals, LEF library <-> JSON (as c16.rs)
fn dec_of(v: &Value) -> LefDecimal {
    let neg = v[0].as_bool().expect("dec neg");
    let mag: i128 = v[1].as_str().expect("dec magnitude string").parse().expect("dec magnitude");
    let scale = v[2].as_u64().expect("dec scale") as u32;
    let mut d = LefDecimal::try_from_i128_with_scale(mag, scale).expect("decimal out of representable range");
    d.set_sign_negative(neg);
    d
}
fn dec_json(d: &LefDecimal) -> Value {
    json!([d.is_sign_negative(), d.mantissa().unsigned_abs().to_string(), d.scale()])
}
fn pt_of(v: &Value) -> lef21::LefPoint {
    lef21::LefPoint { x: dec_of(&v[0]), y: dec_of(&v[1]) }
}
fn pt_json(p: &lef21::LefPoint) -> Value {
    json!([dec_json(&p.x), dec_json(&p.y)])
}
fn pts_of(v: &Value) -> Vec<lef21::LefPoint> {
    v.as_array().expect("points").iter().map(pt_of).collect()
}
fn shape_of(g: &Value) -> lef21::LefShape {
    match g[0].as_str().expect("geom tag") {
        "r" => lef21::LefShape::Rect(None, pt_of(&g[1]), pt_of(&g[2])),
        "p" => lef21::LefShape::Polygon(None, pts_of(&g[1])),
        "w" => lef21::LefShape::Path(None, pts_of(&g[1])),
        t => panic!("harness: bad shape tag {}", t),
    }
}
fn geom_of(g: &Value) -> lef21::LefGeometry {
    if g[0].as_str() == Some("i") {
        let one = LefDecimal::from(1u32);
        lef21::LefGeometry::Iterate {
            shape: shape_of(&g[1]),
            pattern: lef21::LefStepPattern { numx: one, numy: one, spacex: one, spacey: one },
        }
    } else {
        lef21::LefGeometry::Shape(shape_of(g))
    }
}
fn lg_of(v: &Value) -> lef21::LefLayerGeometries {
    let mut lg = lef21::LefLayerGeometries::default();
    lg.layer_name = v["layer"].as_str().expect("layer").to_string();
    lg.geometries = v["geoms"].as_array().expect("geoms").iter().map(geom_of).collect();
    if !v["width"].is_null() {
        lg.width = Some(dec_of(&v["width"]));
    }
    if !v["spacing"].is_null() {
        let d = dec_of(&v["spacing"][1]);
        lg.spacing = Some(match v["spacing"][0].as_str().expect("spacing tag") {
            "s" => lef21::LefLayerSpacing::Spacing(d),
            _ => lef21::LefLayerSpacing::DesignRuleWidth(d),
        });
    }
    if !v["epg"].is_null() {
        lg.except_pg_net = Some(v["epg"].as_bool().expect("epg"));
    }
    for _ in 0..v["nvias"].as_u64().unwrap_or(0) {
        lg.vias.push(lef21::LefVia {
            via_name: "v".to_string(),
            pt: lef21::LefPoint { x: LefDecimal::from(0u32), y: LefDecimal::from(0u32) },
        });
    }
    lg
}
fn leflib_of(case: &Value) -> lef21::LefLibrary {
    let mut lib = lef21::LefLibrary::default();
    lib.names_case_sensitive = match case["ncs"].as_str() {
        Some("on") => Some(lef21::LefOnOff::On),
        Some("off") => Some(lef21::LefOnOff::Off),
        _ => None,
    };
    if let Some(n) = case["dbu"].as_i64() {
        let mut u = lef21::LefUnits::default();
        u.database_microns = Some(lef21::LefDbuPerMicron::try_new(lef21::LefDecimal::from(n)).expect("legal DATABASE MICRONS value"));
        lib.units = Some(u);
    }
    for m in case["macros"].as_array().expect("macros") {
        let mut mac = lef21::LefMacro::new(m["name"].as_str().expect("macro name"));
        if !m["size"].is_null() {
            mac.size = Some((dec_of(&m["size"][0]), dec_of(&m["size"][1])));
        }
        for p in m["pins"].as_array().expect("pins") {
            let mut pin = lef21::LefPin::default();
            pin.name = p["name"].as_str().expect("pin name").to_string();
            for port in p["ports"].as_array().expect("ports") {
                let mut lp = lef21::LefPort::default();
                lp.layers = port.as_array().expect("port layers").iter().map(lg_of).collect();
                pin.ports.push(lp);
            }
            mac.pins.push(pin);
        }
        mac.obs = m["obs"].as_array().expect("obs").iter().map(lg_of).collect();
        lib.macros.push(mac);
    }
    lib
}
fn shape_json(s: &lef21::LefShape) -> Value {
    match s {
        lef21::LefShape::Rect(_, p0, p1) => json!(["r", pt_json(p0), pt_json(p1)]),
        lef21::LefShape::Polygon(_, pts) => json!(["p", pts.iter().map(pt_json).collect::<Vec<_>>()]),
        lef21::LefShape::Path(_, pts) => json!(["w", pts.iter().map(pt_json).collect::<Vec<_>>()]),
    }
}
fn lg_json(lg: &lef21::LefLayerGeometries) -> Value {
    let geoms: Vec<Value> = lg
        .geometries
        .iter()
        .map(|g| match g {
            lef21::LefGeometry::Shape(s) => shape_json(s),
            lef21::LefGeometry::Iterate { shape, .. } => json!(["i", shape_json(shape)]),
        })
        .collect();
    json!({
        "layer": lg.layer_name,
        "width": lg.width.as_ref().map(dec_json),
        "spacing": lg.spacing.as_ref().map(|s| match s {
            lef21::LefLayerSpacing::Spacing(d) => json!(["s", dec_json(d)]),
            lef21::LefLayerSpacing::DesignRuleWidth(d) => json!(["d", dec_json(d)]),
        }),
        "epg": lg.except_pg_net,
        "nvias": lg.vias.len(),
        "geoms": geoms,
    })
}
fn masks_none(lg: &lef21::LefLayerGeometries) -> bool {
    lg.geometries.iter().all(|g| {
        let s = match g {
            lef21::LefGeometry::Shape(s) => s,
            lef21::LefGeometry::Iterate { shape, .. } => shape,
        };
        match s {
            lef21::LefShape::Rect(m, _, _) => m.is_none(),
            lef21::LefShape::Polygon(m, _) => m.is_none(),
            lef21::LefShape::Path(m, _) => m.is_none(),
        }
    })
}
/// every field of the exported library that is NOT printed by `leflib_json` has its default value
fn defaults_ok(lib: &lef21::LefLibrary) -> bool {
    let mut ok = true;
    let mut l = lib.clone();
    if let Some(u) = l.units.take() {
        let mut u = u;
        u.database_microns = None;
        ok &= u == lef21::LefUnits::default();
    }
    let macros = std::mem::take(&mut l.macros);
    ok &= l == lef21::LefLibrary::default();
    for m in macros {
        let mut m = m;
        m.name = String::new();
        m.size = None;
        let pins = std::mem::take(&mut m.pins);
        let obs = std::mem::take(&mut m.obs);
        ok &= m == lef21::LefMacro::default();
        for p in pins {
            let mut p = p;
            p.name = String::new();
            let ports = std::mem::take(&mut p.ports);
            ok &= p == lef21::LefPin::default();
            for port in ports {
                let mut port = port;
                let lgs = std::mem::take(&mut port.layers);
                ok &= port == lef21::LefPort::default();
                ok &= lgs.iter().all(masks_none);
            }
        }
        ok &= obs.iter().all(masks_none);
    }
    ok
}
fn leflib_json(lib: &lef21::LefLibrary) -> Value {
    let macros: Vec<Value> = lib
        .macros
        .iter()
        .map(|m| {
            let pins: Vec<Value> = m
                .pins
                .iter()
                .map(|p| {
                    let ports: Vec<Value> =
                        p.ports.iter().map(|pt| Value::Array(pt.layers.iter().map(lg_json).collect())).collect();
                    json!({"name": p.name, "ports": ports})
                })
                .collect();
            json!({
                "name": m.name,
                "size": m.size.as_ref().map(|s| json!([dec_json(&s.0), dec_json(&s.1)])),
                "pins": pins,
                "obs": m.obs.iter().map(lg_json).collect::<Vec<_>>(),
            })
        })
        .collect();
    json!({
        "dbu": lib.units.as_ref().and_then(|u| u.database_microns.as_ref().map(|d| d.value())),
        "defaults_ok": defaults_ok(lib),
        "ncs": match lib.names_case_sensitive { Some(lef21::LefOnOff::On) => json!("on"), Some(lef21::LefOnOff::Off) => json!("off"), None => Value::Null },
        "macros": macros,
    })
}
fn layers_of(v: &Value) -> Option<Ptr<raw::Layers>> {
    if v.is_null() {
        return None;
    }
    let mut layers = raw::Layers::default();
    for l in v.as_array().expect("layers") {
        let num = l[0].as_i64().expect("layer num") as i16;
        let layer = match l[1].as_str() {
            Some(n) => raw::Layer::new(num, n),
            None => raw::Layer::from_num(num),
        };
        layers.add(layer);
    }
    Some(Ptr::new(layers))
}

// ------------------------------------------------------------------ the runs
fn panic_msg(p: Box<dyn std::any::Any + Send>) -> String {
    if let Some(s) = p.downcast_ref::<&str>() {
        s.to_string()
    } else if let Some(s) = p.downcast_ref::<String>() {
        s.clone()
    } else {
        "panic".to_string()
    }
}
fn export(lib: &raw::Library) -> Value {
    match catch_unwind(AssertUnwindSafe(|| raw::lef::LefExporter::export(lib))) {
        Ok(Ok(l)) => {
            // raw -> LEF -> raw: what the importer says about the exported library
            let back = match catch_unwind(AssertUnwindSafe(|| raw::lef::LefImporter::import(&l, None))) {
                Ok(Ok(_)) => json!("ok"),
                Ok(Err(e)) => json!({ "err": format!("{:?}", e) }),
                Err(p) => json!({ "panic": panic_msg(p) }),
            };
            json!({ "ok": leflib_json(&l), "reimport": back })
        }
        Ok(Err(e)) => json!({ "err": format!("{:?}", e) }),
        Err(p) => json!({ "panic": panic_msg(p) }),
    }
}

fn run(case: &Value) -> Value {
    let reps = case["reps"].as_u64().unwrap_or(3).max(1) as usize;
    match case["op"].as_str().unwrap_or("") {
        "export" => {
            let first = export(&build_lib(&case["lib"], 0));
            let mut unstable = false;
            for r in 1..reps {
                if export(&build_lib(&case["lib"], r)) != first {
                    unstable = true;
                }
            }
            json!({"out": first, "unstable": unstable, "runs": reps})
        }
        "roundtrip" => {
            let leflib = leflib_of(case);
            let mut outs: Vec<(Value, Value)> = Vec::new();
            for _ in 0..reps {
                // a fresh import each time: the importer builds the hash maps (fresh seeds)
                let imp = catch_unwind(AssertUnwindSafe(|| raw::lef::LefImporter::import(&leflib, layers_of(&case["layers"]))));
                outs.push(match imp {
                    Ok(Ok(rlib)) => (json!("ok"), export(&rlib)),
                    Ok(Err(e)) => (json!({ "err": format!("{:?}", e) }), Value::Null),
                    Err(p) => (json!({ "panic": panic_msg(p) }), Value::Null),
                });
            }
            let unstable = outs.iter().any(|o| *o != outs[0]);
            json!({"echo": leflib_json(&leflib), "import": outs[0].0, "out": outs[0].1, "unstable": unstable, "runs": reps})
        }
        _ => json!({"harness_error": "bad op"}),
    }
}

fn main() {
    l21h::main_loop(run);
}
