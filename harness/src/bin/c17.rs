//! C17: dependency orderers.
//!
//! Case: {"k": kind, "g": [[deps of node 0], [deps of node 1], ...], "items": [listing order], "aref": m}
//! Nodes are 0..n-1 (n = g.len()); a dependency id >= n is a reference to something that does not exist
//! (only meaningful for "gds": an SREF to a name no struct carries).
//!   "gen"      layout21utils::DepOrder::order(items) with `impl DepOrder for G { type Item = usize }`,
//!              process = push every dependency (graph in a thread_local, `process` is a static fn)
//!   "raw"      layout21raw::DepOrder::order(&lib): cells = `items` in that order; nodes not in `items`
//!              are cells that are instantiated but not listed in lib.cells; "nolayout": [ids] = cells with only
//!              an abstract view (no dependencies); "absalso": [ids] = cells with an abstract view besides their layout;
//!              "noview": [ids] = cells with neither view (the three lists are understood by raw, rawproto, tetris, tproto)
//!   "rawproto" the same library through layout21raw::Library::to_proto(): order of plib.cells
//!   "tetris"   layout21tetris::library::Library::dep_order(); "dup": m > 0 = cell i is NAMED c{i mod m} (shared names)
//!   "tproto"   layout21tetris::conv::proto::ProtoExporter::export(&lib): order of plib.cells (CellOrder)
//!   "place"    layout21tetris::placer::Placer::place on one parent cell whose instances are placed relative to
//!              each other (out-degree <= 1): order of the parent's instances afterwards (PlaceOrder)
//!   "gds"      layout21raw::Library::from_gds(&gdslib, None): order of lib.cells (GdsDepOrder);
//!              structs listed in `items` order; every m-th reference is an AREF (1x1) when m > 0; "filler": f > 0 = a boundary /
//!              path / text element before the first, after the last and before every f-th reference
//! Result: {"rc":0,"out":[ids]} | {"rc":1,"err":msg}   (a panic becomes {"panic":..} in main_loop,
//! a stack overflow kills the process and is seen by the caller as {"crash":..}).
use l21h::{json, Value};
use std::cell::RefCell;

use layout21raw as raw;
use layout21tetris as tetris;
use layout21utils::{DepOrder, DepOrderer, Ptr};

thread_local! {
    static GRAPH: RefCell<Vec<Vec<usize>>> = RefCell::new(Vec::new());
}

struct G;
impl DepOrder for G {
    type Item = usize;
    type Error = String;
    fn process(item: &usize, orderer: &mut DepOrderer<Self>) -> Result<(), String> {
        // copy the dependency list out so that no RefCell borrow is held across the recursion
        let deps: Vec<usize> = GRAPH.with(|g| g.borrow().get(*item).cloned().unwrap_or_default());
        for d in deps.iter() {
            orderer.push(d)?;
        }
        Ok(())
    }
    fn fail() -> Result<(), String> {
        Err("cycle".to_string())
    }
}

fn parse_graph(case: &Value) -> (Vec<Vec<usize>>, Vec<usize>) {
    let g: Vec<Vec<usize>> = case["g"]
        .as_array()
        .expect("g: array")
        .iter()
        .map(|row| row.as_array().expect("g[i]: array").iter().map(|v| v.as_u64().expect("dep: u64") as usize).collect())
        .collect();
    let items: Vec<usize> = case["items"].as_array().expect("items: array").iter().map(|v| v.as_u64().expect("item: u64") as usize).collect();
    (g, items)
}

fn id_of(name: &str) -> i64 {
    // names are "c<id>"
    name[1..].parse::<i64>().unwrap_or(-1)
}

/// The hand-rolled orderers return a bare Vec today; a repaired version returns a Result. Accept both, so
/// that the harness builds before and after such a repair.
trait OrderResult<P> {
    fn into_res(self) -> Result<Vec<P>, String>;
}
impl<P> OrderResult<P> for Vec<P> {
    fn into_res(self) -> Result<Vec<P>, String> {
        Ok(self)
    }
}
impl<P, E: std::fmt::Debug> OrderResult<P> for Result<Vec<P>, E> {
    fn into_res(self) -> Result<Vec<P>, String> {
        self.map_err(|e| format!("{:?}", e))
    }
}

fn ok(ids: Vec<i64>) -> Value {
    json!({"rc": 0, "out": ids})
}
fn err(msg: String) -> Value {
    json!({"rc": 1, "err": msg})
}

fn run_gen(g: Vec<Vec<usize>>, items: Vec<usize>) -> Value {
    GRAPH.with(|gr| *gr.borrow_mut() = g);
    match G::order(&items) {
        Ok(v) => ok(v.into_iter().map(|x| x as i64).collect()),
        Err(e) => err(e),
    }
}

/// raw library: one cell per node, each with a Layout whose instances point at the dependencies' cells
/// Which views the cells have: `nolayout` = only an abstract view (they instantiate nothing; the generator gives them no
/// dependencies), `absalso` = an abstract view IN ADDITION to the layout, `noview` = neither view (no dependencies either).
#[derive(Default)]
struct Views {
    nolayout: Vec<usize>,
    absalso: Vec<usize>,
    noview: Vec<usize>,
}
fn id_list(case: &Value, key: &str) -> Vec<usize> {
    case[key].as_array().map(|a| a.iter().filter_map(|x| x.as_u64().map(|v| v as usize)).collect()).unwrap_or_default()
}
fn views_of(case: &Value) -> Views {
    Views { nolayout: id_list(case, "nolayout"), absalso: id_list(case, "absalso"), noview: id_list(case, "noview") }
}
fn build_raw_with(g: &[Vec<usize>], items: &[usize], views: &Views) -> (raw::Library, Vec<Ptr<raw::Cell>>) {
    let ptrs: Vec<Ptr<raw::Cell>> = (0..g.len()).map(|i| Ptr::new(raw::Cell::new(format!("c{}", i)))).collect();
    for (i, deps) in g.iter().enumerate() {
        if views.noview.contains(&i) {
            continue;
        }
        if views.nolayout.contains(&i) || views.absalso.contains(&i) {
            let outline = raw::Polygon {
                points: vec![raw::Point::new(0, 0), raw::Point::new(4, 0), raw::Point::new(4, 4), raw::Point::new(0, 4)],
            };
            ptrs[i].write().unwrap().abs = Some(raw::Abstract::new(format!("c{}", i), outline));
            if views.nolayout.contains(&i) {
                continue;
            }
        }
        let mut layout = raw::Layout::default();
        layout.name = format!("c{}", i);
        for (k, d) in deps.iter().enumerate() {
            layout.insts.push(raw::Instance {
                inst_name: format!("i{}", k),
                cell: ptrs[*d].clone(),
                loc: raw::Point::new(10 * k as isize, 0),
                reflect_vert: false,
                angle: None,
            });
        }
        ptrs[i].write().unwrap().layout = Some(layout);
    }
    let mut lib = raw::Library::new("lib", raw::Units::Nano);
    for i in items {
        lib.cells.push(ptrs[*i].clone());
    }
    (lib, ptrs)
}

fn run_raw(g: Vec<Vec<usize>>, items: Vec<usize>, views: Views) -> Value {
    let (lib, ptrs) = build_raw_with(&g, &items, &views);
    match raw::DepOrder::order(&lib).into_res() {
        // cells are identified by pointer, not by name
        Ok(order) => ok(order.iter().map(|p| ptrs.iter().position(|q| q == p).map(|i| i as i64).unwrap_or(-1)).collect()),
        Err(e) => err(e),
    }
}

fn run_rawproto(g: Vec<Vec<usize>>, items: Vec<usize>, views: Views) -> Value {
    let lib = build_raw_with(&g, &items, &views).0;
    match lib.to_proto() {
        Ok(plib) => ok(plib.cells.iter().map(|c| id_of(&c.name)).collect()),
        Err(e) => err(format!("{:?}", e)),
    }
}

/// `dup` > 0: cell i is named "c{i % dup}", so different cells share names (cells are objects, not names)
/// `views`: nolayout = only an abstract view, absalso = both views, noview = a cell without any view
fn build_tetris_with(g: &[Vec<usize>], items: &[usize], dup: usize, views: &Views) -> (tetris::library::Library, Vec<Ptr<tetris::cell::Cell>>) {
    use tetris::cell::Cell;
    use tetris::instance::Instance;
    use tetris::layout::Layout;
    use tetris::outline::Outline;
    let nm = |i: usize| if dup > 0 { format!("c{}", i % dup) } else { format!("c{}", i) };
    let ptrs: Vec<Ptr<Cell>> = (0..g.len()).map(|i| Ptr::new(Cell::new(nm(i)))).collect();
    for (i, deps) in g.iter().enumerate() {
        if views.noview.contains(&i) {
            continue;
        }
        if views.nolayout.contains(&i) || views.absalso.contains(&i) {
            ptrs[i].write().unwrap().abs = Some(tetris::abs::Abstract::new(nm(i), 0, Outline::rect(100, 10).unwrap()));
            if views.nolayout.contains(&i) {
                continue;
            }
        }
        let mut layout = Layout::new(nm(i), 0, Outline::rect(100, 10).unwrap());
        for (k, d) in deps.iter().enumerate() {
            layout.instances.add(Instance {
                inst_name: format!("i{}", k),
                cell: ptrs[*d].clone(),
                loc: (k as isize, 0).into(),
                reflect_horiz: false,
                reflect_vert: false,
            });
        }
        ptrs[i].write().unwrap().layout = Some(layout);
    }
    let mut lib = tetris::library::Library::new("lib");
    for i in items {
        lib.cells.push(ptrs[*i].clone());
    }
    (lib, ptrs)
}

fn run_tetris(g: Vec<Vec<usize>>, items: Vec<usize>, dup: usize, views: Views) -> Value {
    let (lib, ptrs) = build_tetris_with(&g, &items, dup, &views);
    match lib.dep_order().into_res() {
        // cells are identified by pointer, not by name
        Ok(order) => ok(order.iter().map(|p| ptrs.iter().position(|q| q == p).map(|i| i as i64).unwrap_or(-1)).collect()),
        Err(e) => err(e),
    }
}

fn run_tproto(g: Vec<Vec<usize>>, items: Vec<usize>, views: Views) -> Value {
    let lib = build_tetris_with(&g, &items, 0, &views).0;
    match tetris::conv::proto::ProtoExporter::export(&lib) {
        Ok(plib) => ok(plib.cells.iter().map(|c| id_of(&c.name)).collect()),
        Err(e) => err(format!("{:?}", e)),
    }
}

/// `filler` > 0: elements that are no references (boundary, path, text) stand before, between and after the references
fn run_gds(g: Vec<Vec<usize>>, items: Vec<usize>, arefmod: usize, filler: usize) -> Value {
    use gds21::{GdsArrayRef, GdsBoundary, GdsLibrary, GdsPath, GdsPoint, GdsStruct, GdsStructRef, GdsTextElem};
    let mut lib = GdsLibrary::new("lib");
    let mut k = 0usize;
    let fill = |s: &mut GdsStruct, j: usize| match j % 3 {
        0 => s.elems.push(
            GdsBoundary { layer: 1, datatype: 0, xy: GdsPoint::vec(&[(0, 0), (4, 0), (4, 4), (0, 4), (0, 0)]), ..Default::default() }.into(),
        ),
        1 => s.elems.push(GdsPath { layer: 2, datatype: 0, width: Some(2), xy: GdsPoint::vec(&[(0, 0), (8, 0)]), ..Default::default() }.into()),
        _ => s.elems.push(GdsTextElem { string: "t".into(), layer: 1, texttype: 0, xy: GdsPoint::new(1, 1), ..Default::default() }.into()),
    };
    for i in items.iter() {
        let mut s = GdsStruct::new(format!("c{}", i));
        if filler > 0 {
            fill(&mut s, *i);
        }
        for d in g[*i].iter() {
            k += 1;
            if filler > 0 && k % filler == 0 {
                fill(&mut s, k);
            }
            if arefmod > 0 && k % arefmod == 0 {
                s.elems.push(
                    GdsArrayRef {
                        name: format!("c{}", d),
                        xy: [GdsPoint::new(0, 0), GdsPoint::new(10, 0), GdsPoint::new(0, 10)],
                        cols: 1,
                        rows: 1,
                        ..Default::default()
                    }
                    .into(),
                );
            } else {
                s.elems.push(GdsStructRef { name: format!("c{}", d), xy: GdsPoint::new(k as i32, 0), ..Default::default() }.into());
            }
        }
        if filler > 0 {
            fill(&mut s, *i + 1);
        }
        lib.structs.push(s);
    }
    match raw::Library::from_gds(&lib, None) {
        Ok(rlib) => ok(rlib.cells.iter().map(|p| id_of(&p.read().unwrap().name)).collect()),
        Err(e) => err(format!("{:?}", e)),
    }
}

/// PlaceOrder through Placer::place: one parent cell whose instances (listed in `items` order, which must
/// contain every node once) are placed absolutely (g[i] == []) or relative to instance g[i][0].
/// The order of the parent's `instances` after placement is the order PlaceOrder produced.
fn run_place(g: Vec<Vec<usize>>, items: Vec<usize>) -> Value {
    use tetris::instance::Instance;
    use tetris::layout::Layout;
    use tetris::outline::Outline;
    use tetris::placement::{Align, Place, Placeable, RelativePlace, Separation, Side};
    use tetris::stack::{PrimitiveLayer, Stack};
    let mut rawlayers = raw::Layers::default();
    let boundary_layer = Some(rawlayers.add(raw::Layer::from_pairs(0, &[(0, raw::LayerPurpose::Outline)]).unwrap()));
    let stack = Stack {
        units: raw::Units::default(),
        boundary_layer,
        prim: PrimitiveLayer::new((100, 100).into()),
        metals: Vec::new(),
        vias: Vec::new(),
        rawlayers: Some(Ptr::new(rawlayers)),
    }
    .validate()
    .unwrap();
    let mut lib = tetris::library::Library::new("lib");
    let unit = lib.cells.add(Layout::new("unit", 0, Outline::rect(3, 7).unwrap()));
    let insts: Vec<Ptr<Instance>> = (0..g.len())
        .map(|i| {
            Ptr::new(Instance {
                inst_name: format!("c{}", i),
                cell: unit.clone(),
                loc: (5 * i as isize, 0).into(),
                reflect_horiz: false,
                reflect_vert: false,
            })
        })
        .collect();
    for (i, deps) in g.iter().enumerate() {
        if let Some(d) = deps.first() {
            insts[i].write().unwrap().loc = Place::Rel(RelativePlace {
                to: Placeable::Instance(insts[*d].clone()),
                side: Side::Right,
                align: Align::Side(Side::Bottom),
                sep: Separation::default(),
            });
        }
    }
    let mut parent = Layout::new("parent", 0, Outline::rect(10000, 100).unwrap());
    for i in items.iter() {
        parent.instances.push(insts[*i].clone());
    }
    let parent = lib.cells.add(parent);
    match tetris::placer::Placer::place(lib, stack) {
        Ok(_) => {
            let cell = parent.read().unwrap();
            let layout = cell.layout.as_ref().unwrap();
            // every placement must be absolute now
            let all_abs = layout.instances.iter().all(|p| matches!(p.read().unwrap().loc, Place::Abs(_)));
            json!({"rc": 0, "out": layout.instances.iter().map(|p| id_of(&p.read().unwrap().inst_name)).collect::<Vec<i64>>(), "all_abs": all_abs})
        }
        Err(e) => err(format!("{:?}", e)),
    }
}

fn run(case: &Value) -> Value {
    let k = case["k"].as_str().unwrap_or("");
    let (g, items) = parse_graph(case);
    match k {
        "gen" => run_gen(g, items),
        "raw" => run_raw(g, items, views_of(case)),
        "rawproto" => run_rawproto(g, items, views_of(case)),
        "tetris" => run_tetris(g, items, case["dup"].as_u64().unwrap_or(0) as usize, views_of(case)),
        "tproto" => run_tproto(g, items, views_of(case)),
        "place" => run_place(g, items),
        "gds" => run_gds(g, items, case["aref"].as_u64().unwrap_or(0) as usize, case["filler"].as_u64().unwrap_or(0) as usize),
        _ => json!({"harness_error": "bad kind"}),
    }
}

fn main() {
    l21h::main_loop(run);
}
