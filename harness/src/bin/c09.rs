//! C09: relative placement through `layout21tetris::placer::Placer::place`.
//!
//! Case (JSON):
//!   cells:  [ null | {"x":[..],"y":[..]} ]           cell k is named "c{k}"; null = a Cell without any view;
//!            optional "abs":{"x":[..],"y":[..]} = an abstract view with its own outline as well ("layout":false: abstract only)
//!   nodes:  [ NODE ]                                  the pool of placeables; node id = index = pointer identity
//!   runs:   [ {"instances":[ids], "places":[ids]} ]   each run builds a FRESH library (same pool, other listing);
//!            optional per run: "wrap":n (n cells above the parent, each instantiating the one below), "sibling":"before"|"after",
//!            "unlisted":true (with wrap > 0: the parent is not in lib.cells, only reachable through the wrappers)
//!            (one more cell with a relative placement of its own, listed before / after the parent)
//! NODE = {"k":"inst","cell":c,"loc":LOC,"rh":b,"rv":b}          Ptr<Instance>, named "i{id}"
//!      | {"k":"array","arr":ARR,"loc":LOC,"rh":b,"rv":b}       Ptr<ArrayInstance>, named "a{id}"
//!      | {"k":"port","inst":j}                                  Placeable::Port{inst: node j, port:"P"}
//! LOC  = {"abs":[xdir,xnum,ydir,ynum]} | {"rel":{"to":j,"side":S,"align":A,"sep":{"x":SEP?,"y":SEP?,"z":int?}}}
//! S    = 0 Top | 1 Bottom | 2 Left | 3 Right ;  dir = 0 Horiz | 1 Vert
//! A    = {"side":S} | "center" | "ports"
//! SEP  = {"prim":[dir,n]} | {"db":n} | {"layer":[l,n]} | {"sizeof":c}   (c = -1: the parent cell itself)
//! ARR  = {"unit":{"cell":c}|{"arr":ARR},"count":n,"sep":{..}}
//! `instances` ids must be inst nodes (they go to `Layout::instances`), `places` ids go to `Layout::places`
//! (inst nodes there become `Placeable::Instance`).
//!
//! Result: {"runs":[ R ]},  R = {"ok":[[name, node_id_or_-1, cell, LOCOUT, rh, rv] ..], "places":n, "all_abs":bool (every instance of
//!                             every cell of the returned library is absolute, no places left), "sibling":[x,y]|"rel"|null (where the sibling's s1 went)}
//!                             | {"err": text} | {"panic": text}
//! LOCOUT = [xdir,xnum,ydir,ynum] | "rel"
use l21h::{json, Value};
use layout21tetris::array::{Array, ArrayInstance, Arrayable};
use layout21tetris::cell::Cell;
use layout21tetris::coords::{DbUnits, LayerPitches, PrimPitches, UnitSpeced, Xy};
use layout21tetris::instance::Instance;
use layout21tetris::layout::Layout;
use layout21tetris::library::Library;
use layout21tetris::outline::Outline;
use layout21tetris::placement::{Align, Place, Placeable, RelativePlace, SepBy, Separation, Side};
use layout21tetris::placer::Placer;
use layout21tetris::raw::{self, Dir, Units};
use layout21tetris::stack::{PrimitiveLayer, Stack};
use layout21tetris::utils::Ptr;
use layout21tetris::validate::ValidStack;
use std::panic::{catch_unwind, AssertUnwindSafe};

fn dir(v: &Value) -> Dir {
    if v.as_i64().unwrap() == 0 {
        Dir::Horiz
    } else {
        Dir::Vert
    }
}
fn dirnum(d: Dir) -> i64 {
    match d {
        Dir::Horiz => 0,
        Dir::Vert => 1,
    }
}
fn side(v: &Value) -> Side {
    match v.as_i64().unwrap() {
        0 => Side::Top,
        1 => Side::Bottom,
        2 => Side::Left,
        3 => Side::Right,
        _ => panic!("harness: bad side"),
    }
}
fn pp(d: &Value, n: &Value) -> PrimPitches {
    PrimPitches::new(dir(d), n.as_i64().unwrap() as isize)
}

/// the stack of `SampleStacks::empty()` (tests module of the crate), through the public API
fn empty_stack() -> ValidStack {
    let mut rawlayers = raw::Layers::default();
    let boundary_layer = Some(
        rawlayers.add(raw::Layer::from_pairs(0, &[(0, raw::LayerPurpose::Outline)]).unwrap()),
    );
    let stack = Stack {
        units: Units::default(),
        boundary_layer,
        prim: PrimitiveLayer::new((100, 100).into()),
        metals: Vec::new(),
        vias: Vec::new(),
        rawlayers: Some(Ptr::new(rawlayers)),
    };
    stack.validate().unwrap()
}

struct Ctx {
    cells: Vec<Ptr<Cell>>,
    parent_cell: Option<Ptr<Cell>>,
}

fn sepby(v: &Value, cx: &Ctx) -> Option<SepBy> {
    if v.is_null() {
        return None;
    }
    if let Some(p) = v.get("prim") {
        return Some(SepBy::UnitSpeced(UnitSpeced::PrimPitches(pp(&p[0], &p[1]))));
    }
    if let Some(n) = v.get("db") {
        return Some(SepBy::UnitSpeced(UnitSpeced::DbUnits(DbUnits(n.as_i64().unwrap() as isize))));
    }
    if let Some(p) = v.get("layer") {
        return Some(SepBy::UnitSpeced(UnitSpeced::LayerPitches(LayerPitches::new(
            p[0].as_u64().unwrap() as usize,
            p[1].as_i64().unwrap() as isize,
        ))));
    }
    if let Some(c) = v.get("sizeof") {
        let c = c.as_i64().unwrap();
        if c < 0 {
            return Some(SepBy::SizeOf(cx.parent_cell.clone().expect("harness: parent cell not available")));
        }
        return Some(SepBy::SizeOf(cx.cells[c as usize].clone()));
    }
    panic!("harness: bad sep");
}
fn separation(v: &Value, cx: &Ctx) -> Separation {
    Separation::new(
        sepby(&v["x"], cx),
        sepby(&v["y"], cx),
        v["z"].as_i64().map(|z| z as isize),
    )
}
fn array(v: &Value, cx: &Ctx, name: &str) -> Array {
    let unit = if let Some(c) = v["unit"].get("cell") {
        Arrayable::Instance(cx.cells[c.as_u64().unwrap() as usize].clone())
    } else {
        Arrayable::Array(Ptr::new(array(&v["unit"]["arr"], cx, &format!("{}_u", name))))
    };
    Array {
        name: name.to_string(),
        unit,
        count: v["count"].as_u64().unwrap() as usize,
        sep: separation(&v["sep"], cx),
    }
}

enum Node {
    Inst(Ptr<Instance>),
    Arr(Ptr<ArrayInstance>),
    Port(usize),
}

fn placeable(nodes: &Vec<Node>, j: usize) -> Placeable {
    match &nodes[j] {
        Node::Inst(p) => Placeable::Instance(p.clone()),
        Node::Arr(p) => Placeable::Array(p.clone()),
        Node::Port(i) => match &nodes[*i] {
            Node::Inst(p) => Placeable::Port { inst: p.clone(), port: "P".into() },
            _ => panic!("harness: port of a non-instance"),
        },
    }
}

fn loc_of(v: &Value, nodes: &Vec<Node>, cx: &Ctx) -> Place<Xy<PrimPitches>> {
    if let Some(a) = v.get("abs") {
        return Place::Abs(Xy::new(pp(&a[0], &a[1]), pp(&a[2], &a[3])));
    }
    let r = &v["rel"];
    let align = match &r["align"] {
        Value::String(s) if s == "center" => Align::Center,
        Value::String(_) => Align::Ports("A".into(), "B".into()),
        a => Align::Side(side(&a["side"])),
    };
    Place::Rel(RelativePlace {
        to: placeable(nodes, r["to"].as_u64().unwrap() as usize),
        side: side(&r["side"]),
        align,
        sep: separation(&r["sep"], cx),
    })
}

fn one_run(case: &Value, run: &Value) -> Value {
    // ---- cells
    let mut lib = Library::new("c09");
    let mut cells = Vec::new();
    for (k, c) in case["cells"].as_array().unwrap().iter().enumerate() {
        let name = format!("c{}", k);
        let cell = if c.is_null() {
            Cell::new(name)
        } else {
            let xs: Vec<isize> = c["x"].as_array().unwrap().iter().map(|v| v.as_i64().unwrap() as isize).collect();
            let ys: Vec<isize> = c["y"].as_array().unwrap().iter().map(|v| v.as_i64().unwrap() as isize).collect();
            let mut cell = Cell::from(Layout::new(name.clone(), 0, Outline::new(&xs, &ys).expect("harness: bad outline")));
            // optional second view: an abstract with an outline of its own (`Cell::outline()` prefers the abstract; nothing validates
            // that the two agree). "layout": false drops the layout view (abstract-only cell).
            if let Some(a) = c.get("abs") {
                let ax: Vec<isize> = a["x"].as_array().unwrap().iter().map(|v| v.as_i64().unwrap() as isize).collect();
                let ay: Vec<isize> = a["y"].as_array().unwrap().iter().map(|v| v.as_i64().unwrap() as isize).collect();
                cell.add_view(layout21tetris::abs::Abstract::new(name, 0, Outline::new(&ax, &ay).expect("harness: bad abstract outline")));
                if c["layout"].as_bool() == Some(false) {
                    cell.layout = None;
                }
            }
            cell
        };
        cells.push(lib.cells.add(cell));
    }
    let uses_parent = case["uses_parent_cell"].as_bool().unwrap_or(false);
    // When a separation refers to the parent cell itself, the parent must exist before its layout is filled in.
    let parent_ptr: Option<Ptr<Cell>> = if uses_parent {
        Some(lib.cells.add(Cell::from(Layout::new("parent", 0, Outline::rect(100, 100).unwrap()))))
    } else {
        None
    };
    let cx = Ctx { cells, parent_cell: parent_ptr.clone() };
    // ---- nodes: two passes, because relative places point at other nodes (possibly later ones, or themselves)
    let jn = case["nodes"].as_array().unwrap();
    let mut nodes: Vec<Node> = Vec::new();
    for (id, n) in jn.iter().enumerate() {
        let placeholder: Place<Xy<PrimPitches>> = (0, 0).into();
        match n["k"].as_str().unwrap() {
            "inst" => nodes.push(Node::Inst(Ptr::new(Instance {
                inst_name: format!("i{}", id),
                cell: cx.cells[n["cell"].as_u64().unwrap() as usize].clone(),
                loc: placeholder,
                reflect_horiz: n["rh"].as_bool().unwrap(),
                reflect_vert: n["rv"].as_bool().unwrap(),
            }))),
            "array" => nodes.push(Node::Arr(Ptr::new(ArrayInstance {
                name: format!("a{}", id),
                array: Ptr::new(array(&n["arr"], &cx, &format!("arr{}", id))),
                loc: placeholder,
                reflect_horiz: n["rh"].as_bool().unwrap(),
                reflect_vert: n["rv"].as_bool().unwrap(),
            }))),
            "port" => nodes.push(Node::Port(n["inst"].as_u64().unwrap() as usize)),
            _ => panic!("harness: bad node kind"),
        }
    }
    for (id, n) in jn.iter().enumerate() {
        match &nodes[id] {
            Node::Inst(p) => {
                let l = loc_of(&n["loc"], &nodes, &cx);
                p.write().unwrap().loc = l;
            }
            Node::Arr(p) => {
                let l = loc_of(&n["loc"], &nodes, &cx);
                p.write().unwrap().loc = l;
            }
            Node::Port(_) => (),
        }
    }
    // ---- the parent layout
    let mut parent = Layout::new("parent", 0, Outline::rect(100, 100).unwrap());
    for j in run["instances"].as_array().unwrap() {
        match &nodes[j.as_u64().unwrap() as usize] {
            Node::Inst(p) => parent.instances.push(p.clone()),
            _ => panic!("harness: non-instance in `instances`"),
        }
    }
    for j in run["places"].as_array().unwrap() {
        parent.places.push(placeable(&nodes, j.as_u64().unwrap() as usize));
    }
    // ---- optional: a sibling cell with a relative placement of its own, listed before the parent (generator audit 2026-10-02)
    let sibling_mode = run["sibling"].as_str().unwrap_or("");
    let mut sib_s1: Option<Ptr<Instance>> = None;
    let mut add_sibling = |lib: &mut Library| {
        let unit = lib.cells.add(Cell::from(Layout::new("sib_unit", 0, Outline::rect(2, 3).unwrap())));
        let s0 = Ptr::new(Instance { inst_name: "s0".into(), cell: unit.clone(), loc: (5, 7).into(), reflect_horiz: false, reflect_vert: false });
        let s1 = Ptr::new(Instance {
            inst_name: "s1".into(),
            cell: unit.clone(),
            loc: Place::Rel(RelativePlace { to: Placeable::Instance(s0.clone()), side: Side::Right, align: Align::Side(Side::Bottom), sep: Separation::default() }),
            reflect_horiz: false,
            reflect_vert: false,
        });
        let mut sib = Layout::new("sib", 0, Outline::rect(50, 50).unwrap());
        sib.instances.push(s1.clone()); // the dependent first
        sib.instances.push(s0);
        lib.cells.add(Cell::from(sib));
        sib_s1 = Some(s1);
    };
    if sibling_mode == "before" {
        add_sibling(&mut lib);
    }
    let parent_ptr = match parent_ptr {
        Some(p) => {
            p.write().unwrap().layout = Some(parent);
            p
        }
        // "unlisted": the parent is reached only through the cells that instantiate it (it is not in `lib.cells`)
        None if run["unlisted"].as_bool().unwrap_or(false) && run["wrap"].as_u64().unwrap_or(0) > 0 => Ptr::new(Cell::from(parent)),
        None => lib.cells.add(parent),
    };
    // ---- optional: `wrap` cells above the parent, each instantiating the one below at an absolute location
    let mut below = parent_ptr.clone();
    for k in 0..run["wrap"].as_u64().unwrap_or(0) {
        let mut w = Layout::new(format!("wrap{}", k), 0, Outline::rect(200, 200).unwrap());
        w.instances.push(Ptr::new(Instance { inst_name: "w".into(), cell: below.clone(), loc: ((k + 1) as isize, (k + 2) as isize).into(), reflect_horiz: false, reflect_vert: k % 2 == 1 }));
        below = lib.cells.add(Cell::from(w));
    }
    if sibling_mode == "after" {
        add_sibling(&mut lib);
    }
    // ---- the code under test
    let stack = empty_stack();
    let res = catch_unwind(AssertUnwindSafe(|| Placer::place(lib, stack)));
    match res {
        Err(p) => {
            let msg = if let Some(s) = p.downcast_ref::<&str>() {
                s.to_string()
            } else if let Some(s) = p.downcast_ref::<String>() {
                s.clone()
            } else {
                "panic".to_string()
            };
            json!({ "panic": msg })
        }
        Ok(Err(e)) => {
            let mut s = format!("{:?}", e);
            s.truncate(160);
            json!({ "err": s })
        }
        Ok(Ok((rlib, _stack))) => {
            // every instance of every cell of the returned library is absolutely placed, no `places` are left
            let mut all_abs = true;
            for cp in rlib.cells.iter() {
                let c = cp.read().unwrap();
                if let Some(l) = c.layout.as_ref() {
                    if l.places.len() != 0 {
                        all_abs = false;
                    }
                    for ip in l.instances.iter() {
                        if let Place::Rel(_) = ip.read().unwrap().loc {
                            all_abs = false;
                        }
                    }
                }
            }
            // ... and so is the parent itself, also when it is not a listed cell
            if let Some(l) = parent_ptr.read().unwrap().layout.as_ref() {
                if l.places.len() != 0 || l.instances.iter().any(|ip| matches!(ip.read().unwrap().loc, Place::Rel(_))) {
                    all_abs = false;
                }
            }
            let sibling = match &sib_s1 {
                Some(p) => match &p.read().unwrap().loc {
                    Place::Abs(xy) => json!([xy.x.num as i64, xy.y.num as i64]),
                    Place::Rel(_) => json!("rel"),
                },
                None => Value::Null,
            };
            let pc = parent_ptr.read().unwrap();
            let layout = pc.layout.as_ref().unwrap();
            let mut out = Vec::new();
            for ip in layout.instances.iter() {
                let i = ip.read().unwrap();
                let id: i64 = nodes
                    .iter()
                    .position(|n| matches!(n, Node::Inst(p) if p == ip))
                    .map(|x| x as i64)
                    .unwrap_or(-1);
                let cell: i64 = cx.cells.iter().position(|c| *c == i.cell).map(|x| x as i64).unwrap_or(-1);
                let loc = match &i.loc {
                    Place::Abs(xy) => json!([dirnum(xy.x.dir), xy.x.num as i64, dirnum(xy.y.dir), xy.y.num as i64]),
                    Place::Rel(_) => json!("rel"),
                };
                out.push(json!([i.inst_name, id, cell, loc, i.reflect_horiz, i.reflect_vert]));
            }
            json!({ "ok": out, "places": layout.places.len(), "all_abs": all_abs, "sibling": sibling })
        }
    }
}

fn run(case: &Value) -> Value {
    let runs: Vec<Value> = case["runs"].as_array().expect("runs").iter().map(|r| one_run(case, r)).collect();
    json!({ "runs": runs })
}

fn main() {
    l21h::main_loop(run);
}
