//! C13: `ShapeTrait::contains` for Rect, Polygon, Path, called both on the concrete type and
//! through the `Shape` enum. One case = one shape + many query points.
//! Case: {"op": "rect"|"poly"|"path", "pts": [[x,y],...], "w": width, "qs": [[x,y],...]}
//!    or {"op": ..., "pts": ..., "w": ..., "grid": [x0,y0,x1,y1]}  (all points, y outer, x inner)
//! Result: {"r": [code,...]} with code 0 = false, 1 = true, 2 = panic (message in "panics"),
//!         3 = the concrete type and the `Shape` enum disagree.
use l21h::{json, Value};
use layout21raw::{Path, Point, Polygon, Rect, Shape, ShapeTrait};
use std::panic::{catch_unwind, AssertUnwindSafe};

fn pt(v: &Value) -> Point {
    Point::new(
        v[0].as_i64().expect("x: i64") as isize,
        v[1].as_i64().expect("y: i64") as isize,
    )
}

fn ask(f: &dyn Fn() -> bool, panics: &mut Vec<String>) -> Option<bool> {
    match catch_unwind(AssertUnwindSafe(f)) {
        Ok(b) => Some(b),
        Err(p) => {
            let msg = if let Some(s) = p.downcast_ref::<&str>() {
                s.to_string()
            } else if let Some(s) = p.downcast_ref::<String>() {
                s.clone()
            } else {
                "panic".to_string()
            };
            if !panics.contains(&msg) {
                panics.push(msg);
            }
            None
        }
    }
}

fn run(case: &Value) -> Value {
    let op = case["op"].as_str().unwrap_or("");
    let pts: Vec<Point> = case["pts"].as_array().expect("pts").iter().map(pt).collect();
    let qs: Vec<Point> = if let Some(g) = case.get("grid").and_then(|g| g.as_array()) {
        let g: Vec<isize> = g.iter().map(|v| v.as_i64().unwrap() as isize).collect();
        let mut v = Vec::new();
        for y in g[1]..=g[3] {
            for x in g[0]..=g[2] {
                v.push(Point::new(x, y));
            }
        }
        v
    } else {
        case["qs"].as_array().expect("qs").iter().map(pt).collect()
    };
    let mut panics: Vec<String> = Vec::new();
    let mut out: Vec<u8> = Vec::with_capacity(qs.len());
    // Build the shape through the public API (public fields), once per case.
    let (direct, shape): (Box<dyn Fn(&Point) -> bool>, Shape) = match op {
        "rect" => {
            let r = Rect { p0: pts[0].clone(), p1: pts[1].clone() };
            let s = Shape::Rect(r.clone());
            (Box::new(move |q| r.contains(q)), s)
        }
        "poly" => {
            let p = Polygon { points: pts.clone() };
            let s = Shape::Polygon(p.clone());
            (Box::new(move |q| p.contains(q)), s)
        }
        "path" => {
            let w = case["w"].as_u64().expect("w: u64") as usize;
            let p = Path { points: pts.clone(), width: w };
            let s = Shape::Path(p.clone());
            (Box::new(move |q| p.contains(q)), s)
        }
        _ => return json!({"harness_error": "bad op"}),
    };
    for q in &qs {
        let a = ask(&|| direct(q), &mut panics);
        let b = ask(&|| shape.contains(q), &mut panics);
        out.push(match (a, b) {
            (Some(x), Some(y)) if x == y => x as u8,
            (None, None) => 2,
            _ => 3,
        });
    }
    if panics.is_empty() {
        json!({ "r": out })
    } else {
        json!({ "r": out, "panics": panics })
    }
}

fn main() {
    l21h::main_loop(run);
}
