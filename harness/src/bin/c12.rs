//! C12: layout21raw::Transform (identity, translate, rotate, reflect_vert, from_instance, cascade),
//! Point::transform, TransformTrait (through flatten) and Layout::flatten, on generated inputs.
//!
//! Doubles are printed as `to_bits()` integers; `-0.0` is printed as `+0.0` (the sign of a zero never
//! reaches an integer coordinate: `x.round() as isize` of either zero is 0 and `z + b == b` for both).
use l21h::{json, Value};
use layout21raw::utils::Ptr;
use layout21raw::{
    Cell, Element, Int, Layer, LayerKey, LayerPurpose, Layers, Layout, Path, Point, Polygon, Rect,
    Shape, Transform, TransformTrait, Instance,
};

fn bits(x: f64) -> u64 {
    if x == 0.0 {
        0
    } else {
        x.to_bits()
    }
}
fn tbits(t: &Transform) -> Value {
    json!([
        bits(t.a[0][0]),
        bits(t.a[0][1]),
        bits(t.a[1][0]),
        bits(t.a[1][1]),
        bits(t.b[0]),
        bits(t.b[1])
    ])
}
fn int(v: &Value) -> Int {
    v.as_i64().expect("integer") as Int
}
fn point(v: &Value) -> Point {
    Point::new(int(&v[0]), int(&v[1]))
}
fn pj(p: &Point) -> Value {
    json!([p.x as i64, p.y as i64])
}
/// Angle: null => None; number => Some(f64); {"bits": u64} => Some(from_bits)
fn angle(v: &Value) -> Option<f64> {
    if v.is_null() {
        None
    } else if let Some(b) = v.get("bits") {
        Some(f64::from_bits(b.as_u64().expect("bits")))
    } else {
        Some(v.as_f64().expect("angle"))
    }
}
struct Pl {
    loc: Point,
    refl: bool,
    angle: Option<f64>,
}
fn placement(v: &Value) -> Pl {
    Pl {
        loc: Point::new(int(&v[0]), int(&v[1])),
        refl: v[2].as_bool().expect("refl"),
        angle: angle(&v[3]),
    }
}
/// The placement written with the library's own elementary transforms:
/// reflect (optional), then rotate, then translate. `cascade(parent, child)` applies `child` first.
fn elementary(p: &Pl) -> Transform {
    let refl = if p.refl {
        Transform::reflect_vert()
    } else {
        Transform::identity()
    };
    let rot = match p.angle {
        Some(a) => Transform::rotate(a),
        None => Transform::identity(),
    };
    let tr = Transform::translate(p.loc.x as f64, p.loc.y as f64);
    Transform::cascade(&tr, &Transform::cascade(&rot, &refl))
}

fn op_chain(case: &Value) -> Value {
    let pls: Vec<Pl> = case["pl"].as_array().expect("pl").iter().map(placement).collect();
    let pts: Vec<Point> = case["pts"].as_array().expect("pts").iter().map(point).collect();
    let fi: Vec<Transform> = pls
        .iter()
        .map(|p| Transform::from_instance(&p.loc, p.refl, p.angle))
        .collect();
    let el: Vec<Transform> = pls.iter().map(elementary).collect();
    // left-nested from the identity, as flatten_helper does
    let mut t = Transform::identity();
    for f in &fi {
        t = Transform::cascade(&t, f);
    }
    // right-nested, no identity
    let mut tr = Transform::identity();
    if let Some(last) = fi.last() {
        tr = *last;
        for f in fi.iter().rev().skip(1) {
            tr = Transform::cascade(f, &tr);
        }
    }
    // left-nested product of the elementary compositions
    let mut te = Transform::identity();
    for f in &el {
        te = Transform::cascade(&te, f);
    }
    let p: Vec<Value> = pts.iter().map(|q| pj(&q.transform(&t))).collect();
    let pr: Vec<Value> = pts.iter().map(|q| pj(&q.transform(&tr))).collect();
    let pe: Vec<Value> = pts.iter().map(|q| pj(&q.transform(&te))).collect();
    // one placement at a time, innermost first, rounding at every level
    let ps: Vec<Value> = pts
        .iter()
        .map(|q| {
            let mut q = *q;
            for f in fi.iter().rev() {
                q = q.transform(f);
            }
            pj(&q)
        })
        .collect();
    // rectangles spanned by consecutive points, through the same composed transform: the image of a rectangle is the pair of the images
    // of its two corner points (what `flatten` stores for a Rect element), at any angle
    let rp: Vec<Value> = pts
        .windows(2)
        .map(|w| {
            let r = layout21raw::Rect { p0: w[0], p1: w[1] }.transform(&t);
            json!([pj(&r.p0), pj(&r.p1)])
        })
        .collect();
    json!({
        "rp": rp,
        "fi": fi.iter().map(tbits).collect::<Vec<_>>(),
        "el": el.iter().map(tbits).collect::<Vec<_>>(),
        "t": tbits(&t), "tr": tbits(&tr), "te": tbits(&te),
        "p": p, "pr": pr, "pe": pe, "ps": ps,
    })
}

/// Elementary constructors on their own.
fn op_elem(case: &Value) -> Value {
    let k = case["kind"].as_str().unwrap_or("");
    let t = match k {
        "identity" => Transform::identity(),
        "translate" => Transform::translate(int(&case["x"]) as f64, int(&case["y"]) as f64),
        "rotate" => Transform::rotate(angle(&case["a"]).expect("angle")),
        "reflect_vert" => Transform::reflect_vert(),
        _ => return json!({"harness_error": "bad kind"}),
    };
    json!({ "t": tbits(&t) })
}

/// The sine and cosine the REPOSITORY uses for an angle in degrees, read off its own code:
/// `Transform::rotate(a)` is `[[cos, -sin], [sin, cos]]`, and `Transform::from_instance(origin, false, Some(a))`
/// has the same matrix. Both are reported; the translator takes the first and checks the second.
fn op_libm(case: &Value) -> Value {
    let mut r: Vec<Value> = Vec::new();
    let mut fi: Vec<Value> = Vec::new();
    for a in case["angles"].as_array().expect("angles") {
        let a = a.as_f64().expect("angle");
        // raw bit patterns here (the sign of a zero is kept)
        let t = Transform::rotate(a);
        r.push(json!([t.a[1][0].to_bits(), t.a[0][0].to_bits()]));
        let f = Transform::from_instance(&Point::new(0, 0), false, Some(a));
        fi.push(json!([f.a[1][0].to_bits(), f.a[0][0].to_bits()]));
    }
    json!({ "r": r, "fi": fi, "source": "Transform::rotate / Transform::from_instance" })
}

const NLAYERS: i64 = 3;
fn purpose(code: i64) -> LayerPurpose {
    match code {
        0 => LayerPurpose::Drawing,
        1 => LayerPurpose::Pin,
        2 => LayerPurpose::Label,
        _ => LayerPurpose::Other(code as i16),
    }
}
fn purpose_code(p: &LayerPurpose) -> i64 {
    match p {
        LayerPurpose::Drawing => 0,
        LayerPurpose::Pin => 1,
        LayerPurpose::Label => 2,
        LayerPurpose::Other(k) => *k as i64,
        _ => -1,
    }
}
fn shape(v: &Value) -> Shape {
    let k = v[0].as_str().expect("shape kind");
    match k {
        "r" => Shape::Rect(Rect {
            p0: point(&v[1]),
            p1: point(&v[2]),
        }),
        "p" => Shape::Polygon(Polygon {
            points: v[1].as_array().expect("pts").iter().map(point).collect(),
        }),
        "w" => Shape::Path(Path {
            width: v[1].as_u64().expect("width") as usize,
            points: v[2].as_array().expect("pts").iter().map(point).collect(),
        }),
        _ => panic!("harness: bad shape kind"),
    }
}
fn shape_json(s: &Shape) -> Value {
    match s {
        Shape::Rect(r) => json!(["r", pj(&r.p0), pj(&r.p1)]),
        Shape::Polygon(p) => json!(["p", p.points.iter().map(pj).collect::<Vec<_>>()]),
        Shape::Path(p) => json!(["w", p.width as u64, p.points.iter().map(pj).collect::<Vec<_>>()]),
    }
}

/// cells: list, children before parents; inst.cell is an index into the list (shared `Ptr`s: a DAG).
/// A cell with "nolayout": true has `layout: None`.
fn op_flatten(case: &Value) -> Value {
    let mut layers = Layers::default();
    let keys: Vec<LayerKey> = (0..NLAYERS).map(|n| layers.add(Layer::from_num(n as i16))).collect();
    let mut ptrs: Vec<Ptr<Cell>> = Vec::new();
    let mut layouts: Vec<Option<Layout>> = Vec::new();
    for (ci, c) in case["cells"].as_array().expect("cells").iter().enumerate() {
        let name = format!("c{}", ci);
        if c["nolayout"].as_bool().unwrap_or(false) {
            ptrs.push(Ptr::new(Cell::new(name)));
            layouts.push(None);
            continue;
        }
        let mut lay = Layout {
            name: name.clone(),
            ..Default::default()
        };
        for e in c["elems"].as_array().expect("elems") {
            lay.elems.push(Element {
                net: e["net"].as_i64().map(|n| format!("n{}", n)),
                layer: keys[(e["layer"].as_i64().expect("layer") % NLAYERS) as usize],
                purpose: purpose(e["purpose"].as_i64().expect("purpose")),
                inner: shape(&e["sh"]),
            });
        }
        for (ii, i) in c["insts"].as_array().expect("insts").iter().enumerate() {
            let idx = i["cell"].as_u64().expect("cell idx") as usize;
            lay.insts.push(Instance {
                inst_name: format!("i{}", ii),
                cell: ptrs[idx].clone(),
                loc: point(&i["loc"]),
                reflect_vert: i["r"].as_bool().expect("r"),
                angle: angle(&i["a"]),
            });
        }
        layouts.push(Some(lay.clone()));
        ptrs.push(Ptr::new(Cell::from(lay)));
    }
    let top = case["top"].as_u64().expect("top") as usize;
    let lay = layouts[top].as_ref().expect("top has a layout");
    match lay.flatten() {
        Err(e) => json!({ "err": format!("{:?}", e) }),
        Ok(elems) => {
            let r: Vec<Value> = elems
                .iter()
                .map(|e| {
                    let layer = keys.iter().position(|k| *k == e.layer).map(|p| p as i64).unwrap_or(-1);
                    json!({
                        "net": e.net, "layer": layer, "purpose": purpose_code(&e.purpose),
                        "sh": shape_json(&e.inner),
                    })
                })
                .collect();
            json!({ "r": r })
        }
    }
}

fn run(case: &Value) -> Value {
    match case["op"].as_str().unwrap_or("") {
        "chain" => op_chain(case),
        "elem" => op_elem(case),
        "libm" => op_libm(case),
        "flatten" => op_flatten(case),
        _ => json!({"harness_error": "bad op"}),
    }
}

fn main() {
    l21h::main_loop(run);
}
