//! C20: determinism of the conversions. Each case names a source (GDSII bytes as hex, or LEF text) and the harness
//! runs the whole conversion chain `reps` times in this process, from scratch each time, printing every intermediate
//! result in its own order (vectors as they are; the contents of hash-map FIELDS of a result are printed sorted by
//! layer number, since a map has no order of its own; creation dates are zeroed). The Python side also runs this
//! binary in several separate processes (fresh per-process hash seeds) and compares the printed results.
use l21h::{json, Value};
use layout21raw as raw;
use raw::utils::Ptr;

fn hex_decode(s: &str) -> Vec<u8> {
    (0..s.len() / 2).map(|i| u8::from_str_radix(&s[2 * i..2 * i + 2], 16).unwrap()).collect()
}
fn pt(p: &raw::Point) -> Value {
    json!([p.x, p.y])
}
fn shape(s: &raw::Shape) -> Value {
    match s {
        raw::Shape::Rect(r) => json!({"rect": [pt(&r.p0), pt(&r.p1)]}),
        raw::Shape::Polygon(p) => json!({"poly": p.points.iter().map(pt).collect::<Vec<_>>()}),
        raw::Shape::Path(p) => json!({"path": p.points.iter().map(pt).collect::<Vec<_>>(), "width": p.width}),
    }
}
fn layer_id(layers: &raw::Layers, k: raw::LayerKey) -> Value {
    match layers.get(k) {
        Some(l) => json!([l.layernum, l.name]),
        None => json!("missing-layer"),
    }
}
fn shape_map(layers: &raw::Layers, m: &std::collections::HashMap<raw::LayerKey, Vec<raw::Shape>>) -> Value {
    let mut v: Vec<(i16, Value)> = m
        .iter()
        .map(|(k, shapes)| {
            let num = layers.get(*k).map(|l| l.layernum).unwrap_or(-1);
            (num, json!([layer_id(layers, *k), shapes.iter().map(shape).collect::<Vec<_>>()]))
        })
        .collect();
    v.sort_by_key(|x| x.0);
    Value::Array(v.into_iter().map(|x| x.1).collect())
}
/// Order-preserving print of a raw library
fn print_raw(lib: &raw::Library) -> Value {
    let layers = lib.layers.read().unwrap();
    let mut cells = Vec::new();
    for c in lib.cells.iter() {
        let c = c.read().unwrap();
        let layout = c.layout.as_ref().map(|l| {
            json!({
                "name": l.name,
                "insts": l.insts.iter().map(|i| json!({"name": i.inst_name, "cell": i.cell.read().unwrap().name, "loc": pt(&i.loc),
                    "reflect_vert": i.reflect_vert, "angle": i.angle.map(|a| a.to_bits())})).collect::<Vec<_>>(),
                "elems": l.elems.iter().map(|e| json!({"net": e.net, "layer": layer_id(&layers, e.layer),
                    "purpose": format!("{:?}", e.purpose), "shape": shape(&e.inner)})).collect::<Vec<_>>(),
                "annotations": l.annotations.iter().map(|t| json!([t.string, pt(&t.loc)])).collect::<Vec<_>>(),
            })
        });
        let abs = c.abs.as_ref().map(|a| {
            json!({
                "name": a.name,
                "outline": a.outline.points.iter().map(pt).collect::<Vec<_>>(),
                "ports": a.ports.iter().map(|p| json!({"net": p.net, "shapes": shape_map(&layers, &p.shapes)})).collect::<Vec<_>>(),
                "blockages": shape_map(&layers, &a.blockages),
            })
        });
        cells.push(json!({"name": c.name, "layout": layout, "abs": abs}));
    }
    // layers in slot (creation) order
    let ls: Vec<Value> = layers.slots.iter().map(|(_, l)| json!([l.layernum, l.name])).collect();
    json!({"name": lib.name, "units": format!("{:?}", lib.units), "cells": cells, "layers": ls})
}
/// The two private maps of a [raw::Layer] (`purps`: number -> purpose, `nums`: purpose -> number), taken from its Debug print
/// (the only complete view of them the public API gives) and sorted, since a map has no order of its own.
/// Purposes that carry a string (`Named`) would not survive the split; no conversion exercised here creates one.
fn layer_maps(l: &raw::Layer) -> (Value, Value) {
    let d = format!("{:?}", l);
    let grab = |tag: &str| -> Vec<String> {
        let i = d.rfind(tag).expect("Debug print of Layer: field") + tag.len();
        let j = i + d[i..].find('}').expect("Debug print of Layer: closing brace");
        let body = &d[i..j];
        if body.is_empty() {
            vec![]
        } else {
            body.split(", ").map(|s| s.to_string()).collect()
        }
    };
    let mut purps: Vec<(i64, String)> = grab("purps: {")
        .iter()
        .map(|e| {
            let (n, p) = e.split_once(": ").expect("purps entry");
            (n.parse::<i64>().expect("purps key"), p.to_string())
        })
        .collect();
    purps.sort();
    for (n, p) in purps.iter() {
        // the public lookup agrees with the print
        assert_eq!(l.purpose(*n as i16).map(|q| format!("{:?}", q)), Some(p.clone()));
    }
    let mut nums: Vec<(String, i64)> = grab("nums: {")
        .iter()
        .map(|e| {
            let (p, n) = e.rsplit_once(": ").expect("nums entry");
            (p.to_string(), n.parse::<i64>().expect("nums value"))
        })
        .collect();
    nums.sort();
    (json!(purps), json!(nums))
}
/// A layer table in full, in its own (slot) order: per slot the layer number, name and both purpose maps; then the table's
/// `nums` map (layer number -> position of the slot its key points to) sorted by number, and the size of `names`.
fn print_layers(layers: &raw::Layers) -> Value {
    let keys: Vec<raw::LayerKey> = layers.slots().keys().collect();
    let slots: Vec<Value> = layers
        .slots()
        .iter()
        .map(|(_k, l)| {
            let (purps, nums) = layer_maps(l);
            json!([l.layernum, l.name, purps, nums])
        })
        .collect();
    let mut nums: Vec<(i16, i64)> = layers.nums.iter().map(|(n, k)| (*n, keys.iter().position(|x| x == k).map(|p| p as i64).unwrap_or(-1))).collect();
    nums.sort();
    json!({"slots": slots, "nums": nums, "names": layers.names.len()})
}
/// Creation dates are the documented exception of the property: replace them by a FIXED date.
/// (`GdsDateTimes::default()` is the time of the call, so it must not be used here.)
fn zero_dates(g: &mut gds21::GdsLibrary) {
    g.set_all_dates(gds21::GdsDateTime::from(&[2000i16, 1, 1, 0, 0, 0]));
}
fn chain_from_raw(lib: &raw::Library, out: &mut Vec<(String, String)>) {
    out.push(("raw".into(), print_raw(lib).to_string()));
    match lib.to_gds() {
        Ok(mut g) => {
            zero_dates(&mut g);
            out.push(("raw_to_gds".into(), format!("{:?}", g)));
        }
        Err(e) => out.push(("raw_to_gds".into(), format!("ERR {}", short(&format!("{:?}", e))))),
    }
    match lib.to_proto() {
        Ok(p) => {
            out.push(("raw_to_proto".into(), format!("{:?}", p)));
            match raw::Library::from_proto(p, None) {
                Ok(l2) => out.push(("proto_to_raw".into(), print_raw(&l2).to_string())),
                Err(e) => out.push(("proto_to_raw".into(), format!("ERR {}", short(&format!("{:?}", e))))),
            }
        }
        Err(e) => out.push(("raw_to_proto".into(), format!("ERR {}", short(&format!("{:?}", e))))),
    }
    match raw::lef::LefExporter::export(lib) {
        Ok(l) => out.push(("raw_to_lef".into(), format!("{:?}", l))),
        Err(e) => out.push(("raw_to_lef".into(), format!("ERR {}", short(&format!("{:?}", e))))),
    }
}
/// Error texts embed Debug prints of hash maps (not part of any conversion result): only the error class is compared.
fn short(_s: &str) -> String {
    String::new()
}
/// A layer table with the purposes the exporters need, so that the chains do not stop at "purpose not defined".
fn prepared_layers() -> Ptr<raw::Layers> {
    use raw::LayerPurpose::*;
    let mut layers = raw::Layers::default();
    let names = ["met1", "met2", "met3", "via1", "poly"];
    let nums = [1i16, 2, 5, 7, 31, 66];
    for (i, num) in nums.iter().enumerate() {
        let mut l = match names.get(i) {
            Some(n) => raw::Layer::new(*num, *n),
            None => raw::Layer::from_num(*num),
        };
        l.add_purpose(0, Drawing).unwrap();
        l.add_purpose(1, Pin).unwrap();
        l.add_purpose(20, Label).unwrap();
        l.add_purpose(3, Obstruction).unwrap();
        layers.add(l);
    }
    Ptr::new(layers)
}
/// "nolayers": true = the importer starts from no layer table at all and creates every layer as it meets it
fn layers_arg(case: &Value) -> Option<Ptr<raw::Layers>> {
    if case["nolayers"].as_bool().unwrap_or(false) {
        None
    } else {
        Some(prepared_layers())
    }
}
fn once(case: &Value, rep: u64) -> Vec<(String, String)> {
    let mut out = Vec::new();
    match case["src"].as_str().unwrap_or("") {
        "gds" => {
            let bytes = hex_decode(case["hex"].as_str().unwrap());
            match gds21::GdsLibrary::from_bytes(&bytes) {
                Err(e) => out.push(("gds_read".into(), format!("ERR {}", short(&format!("{:?}", e))))),
                Ok(g) => match raw::Library::from_gds(&g, layers_arg(case)) {
                    Err(e) => out.push(("gds_to_raw".into(), format!("ERR {}", short(&format!("{:?}", e))))),
                    Ok(lib) => chain_from_raw(&lib, &mut out),
                },
            }
        }
        "lef" => {
            let dir = std::path::Path::new("/verif/work/c20/tmp");
            std::fs::create_dir_all(dir).unwrap();
            let path = dir.join(format!("t{}.lef", std::process::id()));
            std::fs::write(&path, case["text"].as_str().unwrap()).unwrap();
            let r = lef21::LefLibrary::open(&path);
            let _ = std::fs::remove_file(&path);
            match r {
                Err(e) => out.push(("lef_read".into(), format!("ERR {}", short(&format!("{:?}", e))))),
                Ok(l) => match raw::lef::LefImporter::import(&l, layers_arg(case)) {
                    Err(e) => out.push(("lef_to_raw".into(), format!("ERR {}", short(&format!("{:?}", e))))),
                    Ok(lib) => chain_from_raw(&lib, &mut out),
                },
            }
        }
        "rawlib" => {
            // a raw library built directly through the public API: cells in ANY listing order (a parent may be listed
            // before its children, which no importer produces). "cells": [{"name", "insts": [cell index, ...]}]
            let mut lib = raw::Library::new("rawlib", raw::Units::Nano);
            lib.layers = prepared_layers();
            let cspecs = case["cells"].as_array().unwrap();
            // The cell OBJECTS are allocated in listing order on even repetitions and in reverse order on odd ones (with a
            // few throw-away allocations in between), so that two structurally identical libraries have their cells at
            // differently ordered addresses: a result that depends on pointer values then differs between repetitions.
            // "listed": false = the cell is reachable only through instances (it is not in lib.cells).
            let mut slots: Vec<Option<Ptr<raw::Cell>>> = cspecs.iter().map(|_| None).collect();
            let order: Vec<usize> = if rep % 2 == 0 { (0..cspecs.len()).collect() } else { (0..cspecs.len()).rev().collect() };
            let mut ballast: Vec<Vec<u8>> = Vec::new();
            for i in order {
                slots[i] = Some(Ptr::new(raw::Cell::new(cspecs[i]["name"].as_str().unwrap())));
                if rep % 2 == 1 {
                    ballast.push(vec![0u8; 64 + 16 * i]);
                }
            }
            let ptrs: Vec<Ptr<raw::Cell>> = slots.into_iter().map(|p| p.unwrap()).collect();
            for (c, p) in cspecs.iter().zip(ptrs.iter()) {
                if c["listed"].as_bool().unwrap_or(true) {
                    lib.cells.push(p.clone());
                }
            }
            drop(ballast);
            // optional per cell (generator audit 2026-10-02): "elems": [[layer number, purpose 0 Drawing | 1 Pin | 3 Obstruction, x, y, net|null]],
            // "abs": {"ports": [[[layer number, shapes], ..] per port], "blk": [[layer number, shapes], ..]}, "nolayout": true (abstract only)
            let keys: Vec<(i16, raw::LayerKey)> = {
                let l = lib.layers.read().unwrap();
                [1i16, 2, 5, 7, 31, 66].iter().map(|n| (*n, l.keynum(*n).unwrap())).collect()
            };
            let key_of = |v: &Value| keys.iter().find(|(n, _)| *n as i64 == v.as_i64().unwrap()).expect("layer number of the prepared table").1;
            let rects = |n: u64, off: isize| -> Vec<raw::Shape> {
                (0..n as isize)
                    .map(|j| {
                        if j % 3 == 2 {
                            raw::Shape::Polygon(raw::Polygon { points: vec![raw::Point::new(off + j, 0), raw::Point::new(off + j + 4, 0), raw::Point::new(off + j + 4, 3)] })
                        } else {
                            raw::Shape::Rect(raw::Rect { p0: raw::Point::new(off + 10 * j, j), p1: raw::Point::new(off + 10 * j + 5, j + 5) })
                        }
                    })
                    .collect()
            };
            for (c, p) in cspecs.iter().zip(ptrs.iter()) {
                let mut cell = p.write().unwrap();
                if let Some(a) = c.get("abs") {
                    let outline = raw::Polygon { points: vec![raw::Point::new(0, 0), raw::Point::new(100, 0), raw::Point::new(100, 100), raw::Point::new(0, 100)] };
                    let mut abs = raw::Abstract::new(c["name"].as_str().unwrap(), outline);
                    for (pi, port) in a["ports"].as_array().unwrap().iter().enumerate() {
                        let mut ap = raw::AbstractPort::new(format!("p{}", pi));
                        for e in port.as_array().unwrap() {
                            ap.shapes.insert(key_of(&e[0]), rects(e[1].as_u64().unwrap(), 7 * pi as isize));
                        }
                        abs.ports.push(ap);
                    }
                    for e in a["blk"].as_array().unwrap() {
                        abs.blockages.insert(key_of(&e[0]), rects(e[1].as_u64().unwrap(), 50));
                    }
                    cell.abs = Some(abs);
                }
                if c["nolayout"].as_bool().unwrap_or(false) {
                    continue;
                }
                let mut layout = raw::Layout { name: c["name"].as_str().unwrap().to_string(), insts: vec![], elems: vec![], annotations: vec![] };
                for e in c["elems"].as_array().map(|a| a.as_slice()).unwrap_or(&[]) {
                    let (x, y) = (e[2].as_i64().unwrap() as isize, e[3].as_i64().unwrap() as isize);
                    layout.elems.push(raw::Element {
                        net: e[4].as_str().map(|s| s.to_string()),
                        layer: key_of(&e[0]),
                        purpose: match e[1].as_i64().unwrap() {
                            1 => raw::LayerPurpose::Pin,
                            3 => raw::LayerPurpose::Obstruction,
                            _ => raw::LayerPurpose::Drawing,
                        },
                        inner: raw::Shape::Rect(raw::Rect { p0: raw::Point::new(x, y), p1: raw::Point::new(x + 6, y + 4) }),
                    });
                }
                for (k, i) in c["insts"].as_array().unwrap().iter().enumerate() {
                    layout.insts.push(raw::Instance {
                        inst_name: format!("i{}", k),
                        cell: ptrs[i.as_u64().unwrap() as usize].clone(),
                        loc: raw::Point::new(10 * k as isize, 0),
                        reflect_vert: false,
                        angle: None,
                    });
                }
                cell.layout = Some(layout);
            }
            chain_from_raw(&lib, &mut out);
        }
        "tech" => {
            // technology protobuf -> Layers (layout21raw::Layers::from_proto, used by proto2gds): the layer table in
            // its own (slot) order. "layers": [[index, sub_index, purpose type 0..5 | null], ...]
            let mut t = layout21protos::tech::Technology::default();
            t.name = "tech".into();
            for l in case["layers"].as_array().unwrap() {
                let mut li = layout21protos::tech::LayerInfo::default();
                li.index = l[0].as_u64().unwrap();
                li.sub_index = l[1].as_u64().unwrap();
                li.name = format!("l{}_{}", li.index, li.sub_index);
                if let Some(ty) = l[2].as_i64() {
                    li.purpose = Some(layout21protos::tech::LayerPurpose { description: "p".into(), r#type: ty as i32 });
                }
                t.layers.push(li);
            }
            match raw::Layers::from_proto(&t) {
                Err(e) => out.push(("tech_to_layers".into(), format!("ERR {}", short(&format!("{:?}", e))))),
                Ok(layers) => out.push(("tech_to_layers".into(), print_layers(&layers).to_string())),
            }
        }
        _ => out.push(("bad_src".into(), "".into())),
    }
    out
}

fn run(case: &Value) -> Value {
    let reps = case["reps"].as_u64().unwrap_or(3);
    let first = once(case, 0);
    let mut unstable: Vec<String> = Vec::new();
    for rep_no in 1..reps {
        let again = once(case, rep_no);
        for (a, b) in first.iter().zip(again.iter()) {
            if a != b && !unstable.contains(&a.0) {
                unstable.push(a.0.clone());
            }
        }
        if first.len() != again.len() {
            unstable.push("chain-length".into());
        }
    }
    let want_out = case["want_out"].as_bool().unwrap_or(false);
    let stages: Vec<Value> = first
        .iter()
        .map(|(k, v)| {
            let mut h: u64 = 1469598103934665603; // FNV-1a, seed-free
            for b in v.as_bytes() {
                h ^= *b as u64;
                h = h.wrapping_mul(1099511628211);
            }
            if want_out { json!([k, h, v]) } else { json!([k, h, v.len(), v.starts_with("ERR")]) }
        })
        .collect();
    json!({"stages": stages, "unstable_in_process": unstable})
}

fn main() {
    l21h::main_loop(run);
}
