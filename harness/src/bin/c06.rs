//! C06 / C07: layout21raw GDSII import and export (`Library::from_gds`, `Library::to_gds`, `Layout::flatten`).
//!
//! op "import": build a gds21::GdsLibrary from JSON (shape of tools/props/gdscommon.py: strings as hex of their
//!              UTF-8 bytes, doubles as bit patterns), `from_gds(gds, layers)`, then `flatten` every cell.
//!              -> {"lib": L | {"err"} | {"panic"}, "flat": [ {"ok": [element..]} | {"err"} | {"panic"} per cell ]}
//! op "rt":     build a raw library through the public API (shape of the C14 harness), `to_gds`, then
//!              `from_gds(gds, Some(the library's own Layers))`.
//!              -> {"gds": G | {"err"} | {"panic"}, "raw": L' | {"err"} | {"panic"} | null}
//! op "probe":  small public-API probes that tell which variant of `Polygon::contains` /
//!              `Transform::from_instance` the working tree carries.
//!
//! Canonical output: LayerKeys are indices into the slot map (insertion order), cell pointers are indices into
//! the library's cell list, doubles are bit patterns, purposes are probed through `Layer::purpose`/`Layer::num`;
//! the dates of an exported GDSII library are printed as zeros (they are the time of the call).
use gds21::*;
use l21h::{json, Value};
use layout21raw as raw;
use raw::utils::Ptr;
use raw::ShapeTrait;
use std::collections::HashMap;
use std::panic::{catch_unwind, AssertUnwindSafe};

// ------------------------------------------------------------------ JSON -> gds21
fn unhex(s: &str) -> Vec<u8> {
    let b = s.as_bytes();
    (0..b.len() / 2)
        .map(|i| {
            let h = |c: u8| -> u8 {
                match c {
                    b'0'..=b'9' => c - b'0',
                    b'a'..=b'f' => c - b'a' + 10,
                    b'A'..=b'F' => c - b'A' + 10,
                    _ => 0,
                }
            };
            h(b[2 * i]) * 16 + h(b[2 * i + 1])
        })
        .collect()
}
fn hex(b: &[u8]) -> String {
    let mut s = String::with_capacity(b.len() * 2);
    for x in b {
        s.push_str(&format!("{:02x}", x));
    }
    s
}
fn string_of(v: &Value) -> String {
    String::from_utf8(unhex(v.as_str().expect("hex string"))).expect("case string must be valid UTF-8")
}
fn i16_of(v: &Value) -> i16 {
    v.as_i64().expect("i16") as i16
}
fn i32_of(v: &Value) -> i32 {
    v.as_i64().expect("i32") as i32
}
fn f64_of(v: &Value) -> f64 {
    f64::from_bits(v.as_u64().expect("f64 bits"))
}
fn opt<T>(v: &Value, f: impl Fn(&Value) -> T) -> Option<T> {
    if v.is_null() {
        None
    } else {
        Some(f(v))
    }
}
fn points_of(v: &Value) -> Vec<GdsPoint> {
    let a = v.as_array().expect("xy");
    (0..a.len() / 2).map(|i| GdsPoint::new(i32_of(&a[2 * i]), i32_of(&a[2 * i + 1]))).collect()
}
fn point_of(v: &Value) -> GdsPoint {
    GdsPoint::new(i32_of(&v[0]), i32_of(&v[1]))
}
fn strans_of(v: &Value) -> GdsStrans {
    GdsStrans {
        reflected: v["r"].as_bool().unwrap(),
        abs_mag: v["am"].as_bool().unwrap(),
        abs_angle: v["aa"].as_bool().unwrap(),
        mag: opt(&v["mag"], f64_of),
        angle: opt(&v["angle"], f64_of),
    }
}
fn bits_of(v: &Value) -> (u8, u8) {
    (v[0].as_u64().unwrap() as u8, v[1].as_u64().unwrap() as u8)
}
fn props_of(v: &Value) -> Vec<GdsProperty> {
    v.as_array()
        .map(|a| a.iter().map(|p| GdsProperty { attr: i16_of(&p[0]), value: string_of(&p[1]) }).collect())
        .unwrap_or_default()
}
/// Every field of the case is carried into the GDSII element, also those the importer never reads
/// (ELFLAGS, PLEX, properties, text presentation / path type / width / strans): absent in a case = None / empty.
fn elem_of(v: &Value) -> GdsElement {
    let elflags = opt(&v["elflags"], |x| {
        let b = bits_of(x);
        GdsElemFlags(b.0, b.1)
    });
    let plex = opt(&v["plex"], |x| GdsPlex(i32_of(x)));
    let properties = props_of(&v["props"]);
    match v["k"].as_str().expect("k") {
        "boundary" => GdsElement::GdsBoundary(GdsBoundary {
            layer: i16_of(&v["layer"]),
            datatype: i16_of(&v["datatype"]),
            xy: points_of(&v["xy"]),
            elflags,
            plex,
            properties,
        }),
        "path" => GdsElement::GdsPath(GdsPath {
            layer: i16_of(&v["layer"]),
            datatype: i16_of(&v["datatype"]),
            xy: points_of(&v["xy"]),
            width: opt(&v["width"], i32_of),
            path_type: opt(&v["path_type"], i16_of),
            begin_extn: opt(&v["begin_extn"], i32_of),
            end_extn: opt(&v["end_extn"], i32_of),
            elflags,
            plex,
            properties,
        }),
        "sref" => GdsElement::GdsStructRef(GdsStructRef {
            name: string_of(&v["name"]),
            xy: point_of(&v["xy"]),
            strans: opt(&v["strans"], strans_of),
            elflags,
            plex,
            properties,
        }),
        "aref" => {
            let p = points_of(&v["xy"]);
            GdsElement::GdsArrayRef(GdsArrayRef {
                name: string_of(&v["name"]),
                xy: [p[0].clone(), p[1].clone(), p[2].clone()],
                cols: i16_of(&v["cols"]),
                rows: i16_of(&v["rows"]),
                strans: opt(&v["strans"], strans_of),
                elflags,
                plex,
                properties,
            })
        }
        "text" => GdsElement::GdsTextElem(GdsTextElem {
            string: string_of(&v["string"]),
            layer: i16_of(&v["layer"]),
            texttype: i16_of(&v["texttype"]),
            xy: point_of(&v["xy"]),
            presentation: opt(&v["presentation"], |x| {
                let b = bits_of(x);
                GdsPresentation(b.0, b.1)
            }),
            path_type: opt(&v["path_type"], i16_of),
            width: opt(&v["width"], i32_of),
            strans: opt(&v["strans"], strans_of),
            elflags,
            plex,
            properties,
        }),
        "node" => GdsElement::GdsNode(GdsNode {
            layer: i16_of(&v["layer"]),
            nodetype: i16_of(&v["nodetype"]),
            xy: points_of(&v["xy"]),
            elflags,
            plex,
            properties,
        }),
        "box" => {
            let p = points_of(&v["xy"]);
            GdsElement::GdsBox(GdsBox {
                layer: i16_of(&v["layer"]),
                boxtype: i16_of(&v["boxtype"]),
                xy: [p[0].clone(), p[1].clone(), p[2].clone(), p[3].clone(), p[4].clone()],
                elflags,
                plex,
                properties,
            })
        }
        k => panic!("harness: bad element kind {}", k),
    }
}
fn gds_of(v: &Value) -> GdsLibrary {
    let mut lib = GdsLibrary::new(string_of(&v["name"]));
    lib.version = i16_of(&v["version"]);
    lib.units = GdsUnits(f64_of(&v["units"][0]), f64_of(&v["units"][1]));
    for s in v["structs"].as_array().expect("structs") {
        let mut st = GdsStruct::new(string_of(&s["name"]));
        for e in s["elems"].as_array().expect("elems") {
            st.elems.push(elem_of(e));
        }
        lib.structs.push(st);
    }
    lib
}

// ------------------------------------------------------------------ gds21 -> JSON (dates as zeros)
fn jpoints(p: &[GdsPoint]) -> Value {
    let mut v = Vec::with_capacity(p.len() * 2);
    for q in p {
        v.push(q.x);
        v.push(q.y);
    }
    json!(v)
}
fn jstr(s: &str) -> Value {
    json!(hex(s.as_bytes()))
}
fn jstrans(s: &Option<GdsStrans>) -> Value {
    match s {
        None => Value::Null,
        Some(s) => json!({"r": s.reflected, "am": s.abs_mag, "aa": s.abs_angle,
            "mag": s.mag.map(|x| x.to_bits()), "angle": s.angle.map(|x| x.to_bits())}),
    }
}
fn jprops(p: &[GdsProperty]) -> Value {
    json!(p.iter().map(|q| json!([q.attr, hex(q.value.as_bytes())])).collect::<Vec<_>>())
}
fn jflags(e: &Option<GdsElemFlags>) -> Value {
    match e {
        None => Value::Null,
        Some(e) => json!([e.0, e.1]),
    }
}
fn jplex(e: &Option<GdsPlex>) -> Value {
    match e {
        None => Value::Null,
        Some(e) => json!(e.0),
    }
}
fn jgelem(e: &GdsElement) -> Value {
    match e {
        GdsElement::GdsBoundary(b) => json!({"k": "boundary", "layer": b.layer, "datatype": b.datatype, "xy": jpoints(&b.xy),
            "elflags": jflags(&b.elflags), "plex": jplex(&b.plex), "props": jprops(&b.properties)}),
        GdsElement::GdsPath(b) => json!({"k": "path", "layer": b.layer, "datatype": b.datatype, "xy": jpoints(&b.xy),
            "width": b.width, "path_type": b.path_type, "begin_extn": b.begin_extn, "end_extn": b.end_extn,
            "elflags": jflags(&b.elflags), "plex": jplex(&b.plex), "props": jprops(&b.properties)}),
        GdsElement::GdsStructRef(b) => json!({"k": "sref", "name": jstr(&b.name), "xy": [b.xy.x, b.xy.y], "strans": jstrans(&b.strans),
            "elflags": jflags(&b.elflags), "plex": jplex(&b.plex), "props": jprops(&b.properties)}),
        GdsElement::GdsArrayRef(b) => json!({"k": "aref", "name": jstr(&b.name), "xy": jpoints(&b.xy), "cols": b.cols, "rows": b.rows,
            "strans": jstrans(&b.strans),
            "elflags": jflags(&b.elflags), "plex": jplex(&b.plex), "props": jprops(&b.properties)}),
        GdsElement::GdsTextElem(b) => json!({"k": "text", "string": jstr(&b.string), "layer": b.layer, "texttype": b.texttype,
            "xy": [b.xy.x, b.xy.y],
            "presentation": b.presentation.as_ref().map(|p| vec![p.0, p.1]), "path_type": b.path_type, "width": b.width,
            "strans": jstrans(&b.strans),
            "elflags": jflags(&b.elflags), "plex": jplex(&b.plex), "props": jprops(&b.properties)}),
        GdsElement::GdsNode(b) => json!({"k": "node", "layer": b.layer, "nodetype": b.nodetype, "xy": jpoints(&b.xy),
            "elflags": jflags(&b.elflags), "plex": jplex(&b.plex), "props": jprops(&b.properties)}),
        GdsElement::GdsBox(b) => json!({"k": "box", "layer": b.layer, "boxtype": b.boxtype, "xy": jpoints(&b.xy),
            "elflags": jflags(&b.elflags), "plex": jplex(&b.plex), "props": jprops(&b.properties)}),
    }
}
fn jgds(l: &GdsLibrary) -> Value {
    let z = vec![0; 12];
    json!({"name": jstr(&l.name), "version": l.version, "dates": z,
        "units": [l.units.0.to_bits(), l.units.1.to_bits()],
        "structs": l.structs.iter().map(|s| json!({"name": jstr(&s.name), "dates": z,
            "elems": s.elems.iter().map(jgelem).collect::<Vec<_>>()})).collect::<Vec<_>>()})
}

// ------------------------------------------------------------------ JSON -> raw (shape of the C14 harness)
fn pt(v: &Value) -> raw::Point {
    raw::Point::new(v[0].as_i64().expect("x") as isize, v[1].as_i64().expect("y") as isize)
}
fn pts(v: &Value) -> Vec<raw::Point> {
    v.as_array().expect("points").iter().map(pt).collect()
}
fn purpose(v: &Value) -> raw::LayerPurpose {
    use raw::LayerPurpose::*;
    if let Some(s) = v.as_str() {
        return match s {
            "Drawing" => Drawing,
            "Pin" => Pin,
            "Label" => Label,
            "Obstruction" => Obstruction,
            "Outline" => Outline,
            _ => panic!("harness: bad purpose"),
        };
    }
    if let Some(k) = v.get("Other") {
        return Other(k.as_i64().unwrap() as i16);
    }
    if let Some(a) = v.get("Named") {
        return Named(a[0].as_str().unwrap().to_string(), a[1].as_i64().unwrap() as i16);
    }
    panic!("harness: bad purpose")
}
fn shape(v: &Value) -> raw::Shape {
    if let Some(r) = v.get("R") {
        return raw::Shape::Rect(raw::Rect { p0: pt(&r[0]), p1: pt(&r[1]) });
    }
    if let Some(g) = v.get("G") {
        return raw::Shape::Polygon(raw::Polygon { points: pts(g) });
    }
    if let Some(p) = v.get("P") {
        return raw::Shape::Path(raw::Path { points: pts(&p[0]), width: p[1].as_u64().expect("width") as usize });
    }
    panic!("harness: bad shape")
}
fn build_layers(spec: &Value) -> (raw::Layers, Vec<raw::LayerKey>) {
    let mut layers = raw::Layers::default();
    let mut keys = Vec::new();
    for l in spec.as_array().expect("layers") {
        let pairs: Vec<(i16, raw::LayerPurpose)> = l["pairs"]
            .as_array()
            .unwrap()
            .iter()
            .map(|p| (p[0].as_i64().unwrap() as i16, purpose(&p[1])))
            .collect();
        let mut layer = raw::Layer::from_pairs(l["num"].as_i64().unwrap() as i16, &pairs).expect("harness: from_pairs");
        layer.name = l["name"].as_str().map(|s| s.to_string());
        keys.push(layers.add(layer));
    }
    (layers, keys)
}
fn key_of(keys: &[raw::LayerKey], v: &Value) -> raw::LayerKey {
    match v.as_u64() {
        Some(k) if (k as usize) < keys.len() => keys[k as usize],
        _ => raw::LayerKey::default(),
    }
}
fn shapemap(keys: &[raw::LayerKey], v: &Value) -> HashMap<raw::LayerKey, Vec<raw::Shape>> {
    let mut m = HashMap::new();
    for e in v.as_array().expect("shapemap") {
        m.insert(key_of(keys, &e[0]), e[1].as_array().unwrap().iter().map(shape).collect());
    }
    m
}
fn build_lib(spec: &Value) -> raw::Library {
    let units = match spec["units"].as_str().unwrap() {
        "Micro" => raw::Units::Micro,
        "Nano" => raw::Units::Nano,
        "Angstrom" => raw::Units::Angstrom,
        "Pico" => raw::Units::Pico,
        _ => panic!("harness: bad units"),
    };
    let mut lib = raw::Library::new(spec["name"].as_str().unwrap(), units);
    let (layers, keys) = build_layers(&spec["layers"]);
    lib.layers = Ptr::new(layers);
    let cspecs = spec["cells"].as_array().expect("cells");
    let ptrs: Vec<Ptr<raw::Cell>> = cspecs
        .iter()
        .map(|c| lib.cells.insert(raw::Cell::new(c["name"].as_str().unwrap())))
        .collect();
    for (c, p) in cspecs.iter().zip(ptrs.iter()) {
        let mut cell = p.write().unwrap();
        if !c["layout"].is_null() {
            let l = &c["layout"];
            cell.layout = Some(raw::Layout {
                name: l["name"].as_str().unwrap().to_string(),
                insts: l["insts"]
                    .as_array()
                    .unwrap()
                    .iter()
                    .map(|i| raw::Instance {
                        inst_name: i["name"].as_str().unwrap().to_string(),
                        cell: ptrs[i["cell"].as_u64().unwrap() as usize].clone(),
                        loc: pt(&i["loc"]),
                        reflect_vert: i["reflect"].as_bool().unwrap(),
                        angle: i["angle"].as_u64().map(f64::from_bits),
                    })
                    .collect(),
                elems: l["elems"]
                    .as_array()
                    .unwrap()
                    .iter()
                    .map(|e| raw::Element {
                        net: e["net"].as_str().map(|s| s.to_string()),
                        layer: key_of(&keys, &e["layer"]),
                        purpose: purpose(&e["purpose"]),
                        inner: shape(&e["shape"]),
                    })
                    .collect(),
                annotations: l["annots"]
                    .as_array()
                    .unwrap()
                    .iter()
                    .map(|a| raw::TextElement { string: a[0].as_str().unwrap().to_string(), loc: pt(&a[1]) })
                    .collect(),
            });
        }
        if !c["abs"].is_null() {
            let a = &c["abs"];
            cell.abs = Some(raw::Abstract {
                name: a["name"].as_str().unwrap().to_string(),
                outline: raw::Polygon { points: pts(&a["outline"]) },
                ports: a["ports"]
                    .as_array()
                    .unwrap()
                    .iter()
                    .map(|p| raw::AbstractPort {
                        net: p["net"].as_str().unwrap().to_string(),
                        shapes: shapemap(&keys, &p["shapes"]),
                    })
                    .collect(),
                blockages: shapemap(&keys, &a["blockages"]),
            });
        }
    }
    lib
}

// ------------------------------------------------------------------ raw -> JSON
fn jpt(p: &raw::Point) -> Value {
    json!([p.x as i64, p.y as i64])
}
fn jpurpose(p: &raw::LayerPurpose) -> Value {
    use raw::LayerPurpose::*;
    match p {
        Drawing => json!("Drawing"),
        Pin => json!("Pin"),
        Label => json!("Label"),
        Obstruction => json!("Obstruction"),
        Outline => json!("Outline"),
        Named(s, k) => json!({"Named": [s, k]}),
        Other(k) => json!({ "Other": k }),
    }
}
fn jshape(s: &raw::Shape) -> Value {
    match s {
        raw::Shape::Rect(r) => json!({"R": [jpt(&r.p0), jpt(&r.p1)]}),
        raw::Shape::Polygon(p) => json!({"G": p.points.iter().map(jpt).collect::<Vec<_>>()}),
        raw::Shape::Path(p) => json!({"P": [p.points.iter().map(jpt).collect::<Vec<_>>(), p.width as u64]}),
    }
}
fn jelem(kidx: &HashMap<raw::LayerKey, usize>, nkeys: usize, e: &raw::Element) -> Value {
    json!({"net": e.net, "layer": *kidx.get(&e.layer).unwrap_or(&nkeys),
           "purpose": jpurpose(&e.purpose), "shape": jshape(&e.inner)})
}
fn key_index(layers: &raw::Layers) -> HashMap<raw::LayerKey, usize> {
    let mut kidx = HashMap::new();
    for (i, (k, _)) in layers.slots.iter().enumerate() {
        kidx.insert(k, i);
    }
    kidx
}
fn jlayers(layers: &raw::Layers, probe: &[i16]) -> Value {
    let mut jl = Vec::new();
    for (k, l) in layers.slots.iter() {
        let mut pairs = Vec::new();
        for n in probe {
            if let Some(p) = l.purpose(*n) {
                pairs.push(json!([n, jpurpose(p), l.num(p)]));
            }
        }
        jl.push(json!({"num": l.layernum, "name": l.name, "pairs": pairs, "keynum": layers.keynum(l.layernum).map(|k2| k2 == k)}));
    }
    Value::Array(jl)
}
fn jlib(lib: &raw::Library, probe: &[i16]) -> Value {
    let layers = lib.layers.read().unwrap();
    let kidx = key_index(&layers);
    let nkeys = kidx.len();
    let cidx = |p: &Ptr<raw::Cell>| -> Value {
        match lib.cells.iter().position(|q| q == p) {
            Some(i) => json!(i),
            None => Value::Null,
        }
    };
    let mut jcells = Vec::new();
    for c in lib.cells.iter() {
        let c = c.read().unwrap();
        let layout = match &c.layout {
            None => Value::Null,
            Some(l) => json!({
                "name": l.name,
                "insts": l.insts.iter().map(|i| json!({
                    "name": i.inst_name, "cell": cidx(&i.cell), "loc": jpt(&i.loc),
                    "reflect": i.reflect_vert, "angle": i.angle.map(|a| a.to_bits())})).collect::<Vec<_>>(),
                "elems": l.elems.iter().map(|e| jelem(&kidx, nkeys, e)).collect::<Vec<_>>(),
                "annots": l.annotations.iter().map(|a| json!([a.string, jpt(&a.loc)])).collect::<Vec<_>>(),
            }),
        };
        // abstracts never come out of the GDSII importer; only their presence is reported
        jcells.push(json!({"name": c.name, "layout": layout, "abs": c.abs.is_some()}));
    }
    let units = match lib.units {
        raw::Units::Micro => "Micro",
        raw::Units::Nano => "Nano",
        raw::Units::Angstrom => "Angstrom",
        raw::Units::Pico => "Pico",
    };
    json!({"name": lib.name, "units": units, "layers": jlayers(&layers, probe), "cells": jcells})
}

// ------------------------------------------------------------------ driver
fn panic_msg(p: Box<dyn std::any::Any + Send>) -> String {
    if let Some(s) = p.downcast_ref::<&str>() {
        s.to_string()
    } else if let Some(s) = p.downcast_ref::<String>() {
        s.clone()
    } else {
        "panic".to_string()
    }
}
fn staged<T>(f: impl FnOnce() -> raw::LayoutResult<T>) -> Result<T, Value> {
    match catch_unwind(AssertUnwindSafe(f)) {
        Ok(Ok(v)) => Ok(v),
        Ok(Err(e)) => Err(json!({ "err": format!("{:?}", e).chars().take(200).collect::<String>() })),
        Err(p) => Err(json!({ "panic": panic_msg(p).chars().take(200).collect::<String>() })),
    }
}
fn probes(case: &Value) -> Vec<i16> {
    let mut v: Vec<i16> = (-1..=12).collect();
    if let Some(a) = case["probe"].as_array() {
        for x in a {
            let k = x.as_i64().unwrap() as i16;
            if !v.contains(&k) {
                v.push(k);
            }
        }
    }
    v.sort();
    v
}
fn flatten_all(lib: &raw::Library) -> Value {
    let layers = lib.layers.read().unwrap();
    let kidx = key_index(&layers);
    let nkeys = kidx.len();
    let mut out = Vec::new();
    for c in lib.cells.iter() {
        let c = c.read().unwrap();
        match &c.layout {
            None => out.push(Value::Null),
            Some(l) => out.push(match staged(|| l.flatten()) {
                Ok(es) => json!({"ok": es.iter().map(|e| jelem(&kidx, nkeys, e)).collect::<Vec<_>>()}),
                Err(e) => e,
            }),
        }
    }
    Value::Array(out)
}

fn run(case: &Value) -> Value {
    let probe = probes(case);
    match case["op"].as_str().unwrap_or("") {
        "import" => {
            let gds = gds_of(&case["gds"]);
            let layers = if case["layers"].is_null() { None } else { Some(Ptr::new(build_layers(&case["layers"]).0)) };
            match staged(|| raw::Library::from_gds(&gds, layers)) {
                Ok(lib) => {
                    let flat = if case["noflat"].as_bool().unwrap_or(false) { Value::Null } else { flatten_all(&lib) };
                    json!({"lib": jlib(&lib, &probe), "flat": flat})
                }
                Err(e) => json!({"lib": e, "flat": Value::Null}),
            }
        }
        "rt" => {
            let lib = build_lib(&case["lib"]);
            let gds = match staged(|| lib.to_gds()) {
                Ok(g) => g,
                Err(e) => return json!({"gds": e, "raw": Value::Null}),
            };
            let jg = jgds(&gds);
            let layers = Some(Ptr::clone(&lib.layers));
            match staged(|| raw::Library::from_gds(&gds, layers)) {
                Ok(l2) => json!({"gds": jg, "raw": jlib(&l2, &probe)}),
                Err(e) => json!({"gds": jg, "raw": e}),
            }
        }
        "probe" => {
            // Polygon::contains: the triangle (0,0),(1,3),(1,0) does not contain (0,1); the code as found says it does
            let tri = raw::Polygon { points: vec![raw::Point::new(0, 0), raw::Point::new(1, 3), raw::Point::new(1, 0)] };
            let c1 = tri.contains(&raw::Point::new(0, 1));
            let pent = raw::Polygon {
                points: vec![raw::Point::new(0, 0), raw::Point::new(5, 0), raw::Point::new(5, 4), raw::Point::new(0, 4), raw::Point::new(1, 2)],
            };
            let c2 = pent.contains(&raw::Point::new(0, 2));
            // Transform::from_instance(loc(10,20), reflect, 90) maps (3,1) to (11,23) when it is the composition
            let t = raw::Transform::from_instance(&raw::Point::new(10, 20), true, Some(90.0));
            let q = raw::Point::new(3, 1).transform(&t);
            json!({"contains_fixed": !c1 && !c2, "from_instance_fixed": q.x == 11 && q.y == 23,
                   "rad90": 90f64.to_radians().to_bits()})
        }
        _ => json!({"harness_error": "bad op"}),
    }
}

fn main() {
    l21h::main_loop(run);
}
