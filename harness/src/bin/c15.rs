//! C15: GdsFloat64::encode / decode on raw bit patterns.
use gds21::GdsFloat64;
use l21h::{json, Value};

fn run(case: &Value) -> Value {
    let op = case["op"].as_str().unwrap_or("");
    let a = case["a"].as_u64().expect("a: u64");
    match op {
        // double bits -> gds word
        "enc" => json!({"r": [GdsFloat64::encode(f64::from_bits(a))]}),
        // gds word -> double bits
        "dec" => json!({"r": [GdsFloat64::decode(a).to_bits()]}),
        // double bits -> [gds word, double bits of decode(encode)]
        "encdec" => {
            let w = GdsFloat64::encode(f64::from_bits(a));
            json!({"r": [w, GdsFloat64::decode(w).to_bits()]})
        }
        // gds word -> [double bits, re-encoded word, decoded again]
        "decenc" => {
            let d = GdsFloat64::decode(a);
            let w = GdsFloat64::encode(d);
            json!({"r": [d.to_bits(), w, GdsFloat64::decode(w).to_bits()]})
        }
        _ => json!({"harness_error": "bad op"}),
    }
}

fn main() {
    l21h::main_loop(run);
}
