//! C14: raw <-> protobuf (`Library::to_proto`, `Library::from_proto`).
//!
//! op "raw":   build a raw library through the public API, `to_proto`, then `from_proto`.
//!             -> {"proto": P | {"err"} | {"panic"}, "raw": L' | {"err"} | {"panic"} | null}
//! op "proto": build a proto::Library (prost structs are pub), `from_proto`, then `to_proto`.
//!             -> {"raw": L | {"err"} | {"panic"}, "proto": P' | {"err"} | {"panic"} | null}
//!
//! Canonical output: LayerKeys are indices into the slot map (insertion order), cell pointers are
//! indices into the library's cell list, doubles are bit patterns, hash-ordered things
//! (abstract port / blockage layers of a raw library) are sorted by layer key, the exported message
//! is printed as it is (the exporter iterates hash maps through `sorted_by_layer`), purposes are
//! probed through `Layer::purpose`/`Layer::num`.
use l21h::{json, Value};
use layout21raw as raw;
use raw::proto::proto;
use raw::utils::Ptr;
use std::collections::HashMap;
use std::panic::{catch_unwind, AssertUnwindSafe};

// ------------------------------------------------------------------ JSON -> raw
fn pt(v: &Value) -> raw::Point {
    raw::Point::new(v[0].as_i64().expect("x") as isize, v[1].as_i64().expect("y") as isize)
}
fn pts(v: &Value) -> Vec<raw::Point> {
    v.as_array().expect("points").iter().map(pt).collect()
}
fn purpose(v: &Value) -> raw::LayerPurpose {
    use raw::LayerPurpose::*;
    if let Some(s) = v.as_str() {
        return match s {
            "Drawing" => Drawing,
            "Pin" => Pin,
            "Label" => Label,
            "Obstruction" => Obstruction,
            "Outline" => Outline,
            _ => panic!("harness: bad purpose"),
        };
    }
    if let Some(k) = v.get("Other") {
        return Other(k.as_i64().unwrap() as i16);
    }
    if let Some(a) = v.get("Named") {
        return Named(a[0].as_str().unwrap().to_string(), a[1].as_i64().unwrap() as i16);
    }
    panic!("harness: bad purpose")
}
fn shape(v: &Value) -> raw::Shape {
    if let Some(r) = v.get("R") {
        return raw::Shape::Rect(raw::Rect { p0: pt(&r[0]), p1: pt(&r[1]) });
    }
    if let Some(g) = v.get("G") {
        return raw::Shape::Polygon(raw::Polygon { points: pts(g) });
    }
    if let Some(p) = v.get("P") {
        return raw::Shape::Path(raw::Path { points: pts(&p[0]), width: p[1].as_u64().expect("width") as usize });
    }
    panic!("harness: bad shape")
}
fn build_layers(spec: &Value) -> (raw::Layers, Vec<raw::LayerKey>) {
    let mut layers = raw::Layers::default();
    let mut keys = Vec::new();
    for l in spec.as_array().expect("layers") {
        let pairs: Vec<(i16, raw::LayerPurpose)> = l["pairs"]
            .as_array()
            .unwrap()
            .iter()
            .map(|p| (p[0].as_i64().unwrap() as i16, purpose(&p[1])))
            .collect();
        let mut layer = raw::Layer::from_pairs(l["num"].as_i64().unwrap() as i16, &pairs).expect("harness: from_pairs");
        layer.name = l["name"].as_str().map(|s| s.to_string());
        keys.push(layers.add(layer));
    }
    (layers, keys)
}
fn key_of(keys: &[raw::LayerKey], v: &Value) -> raw::LayerKey {
    // an index past the table stands for a key that is in no slot
    match v.as_u64() {
        Some(k) if (k as usize) < keys.len() => keys[k as usize],
        _ => raw::LayerKey::default(),
    }
}
fn shapemap(keys: &[raw::LayerKey], v: &Value) -> HashMap<raw::LayerKey, Vec<raw::Shape>> {
    let mut m = HashMap::new();
    for e in v.as_array().expect("shapemap") {
        m.insert(key_of(keys, &e[0]), e[1].as_array().unwrap().iter().map(shape).collect());
    }
    m
}
fn build_lib(spec: &Value) -> raw::Library {
    let units = match spec["units"].as_str().unwrap() {
        "Micro" => raw::Units::Micro,
        "Nano" => raw::Units::Nano,
        "Angstrom" => raw::Units::Angstrom,
        "Pico" => raw::Units::Pico,
        _ => panic!("harness: bad units"),
    };
    let mut lib = raw::Library::new(spec["name"].as_str().unwrap(), units);
    let (layers, keys) = build_layers(&spec["layers"]);
    lib.layers = Ptr::new(layers);
    // create every cell first so that instances can point at cells listed later
    let cspecs = spec["cells"].as_array().expect("cells");
    let ptrs: Vec<Ptr<raw::Cell>> = cspecs
        .iter()
        .map(|c| lib.cells.insert(raw::Cell::new(c["name"].as_str().unwrap())))
        .collect();
    for (c, p) in cspecs.iter().zip(ptrs.iter()) {
        let mut cell = p.write().unwrap();
        if !c["layout"].is_null() {
            let l = &c["layout"];
            cell.layout = Some(raw::Layout {
                name: l["name"].as_str().unwrap().to_string(),
                insts: l["insts"]
                    .as_array()
                    .unwrap()
                    .iter()
                    .map(|i| raw::Instance {
                        inst_name: i["name"].as_str().unwrap().to_string(),
                        cell: ptrs[i["cell"].as_u64().unwrap() as usize].clone(),
                        loc: pt(&i["loc"]),
                        reflect_vert: i["reflect"].as_bool().unwrap(),
                        angle: i["angle"].as_u64().map(f64::from_bits),
                    })
                    .collect(),
                elems: l["elems"]
                    .as_array()
                    .unwrap()
                    .iter()
                    .map(|e| raw::Element {
                        net: e["net"].as_str().map(|s| s.to_string()),
                        layer: key_of(&keys, &e["layer"]),
                        purpose: purpose(&e["purpose"]),
                        inner: shape(&e["shape"]),
                    })
                    .collect(),
                annotations: l["annots"]
                    .as_array()
                    .unwrap()
                    .iter()
                    .map(|a| raw::TextElement { string: a[0].as_str().unwrap().to_string(), loc: pt(&a[1]) })
                    .collect(),
            });
        }
        if !c["abs"].is_null() {
            let a = &c["abs"];
            cell.abs = Some(raw::Abstract {
                name: a["name"].as_str().unwrap().to_string(),
                outline: raw::Polygon { points: pts(&a["outline"]) },
                ports: a["ports"]
                    .as_array()
                    .unwrap()
                    .iter()
                    .map(|p| raw::AbstractPort {
                        net: p["net"].as_str().unwrap().to_string(),
                        shapes: shapemap(&keys, &p["shapes"]),
                    })
                    .collect(),
                blockages: shapemap(&keys, &a["blockages"]),
            });
        }
    }
    lib
}

// ------------------------------------------------------------------ raw -> JSON
fn jpt(p: &raw::Point) -> Value {
    json!([p.x as i64, p.y as i64])
}
fn jpurpose(p: &raw::LayerPurpose) -> Value {
    use raw::LayerPurpose::*;
    match p {
        Drawing => json!("Drawing"),
        Pin => json!("Pin"),
        Label => json!("Label"),
        Obstruction => json!("Obstruction"),
        Outline => json!("Outline"),
        Named(s, k) => json!({"Named": [s, k]}),
        Other(k) => json!({ "Other": k }),
    }
}
fn jshape(s: &raw::Shape) -> Value {
    match s {
        raw::Shape::Rect(r) => json!({"R": [jpt(&r.p0), jpt(&r.p1)]}),
        raw::Shape::Polygon(p) => json!({"G": p.points.iter().map(jpt).collect::<Vec<_>>()}),
        raw::Shape::Path(p) => json!({"P": [p.points.iter().map(jpt).collect::<Vec<_>>(), p.width as u64]}),
    }
}
fn jshapemap(kidx: &HashMap<raw::LayerKey, usize>, nkeys: usize, m: &HashMap<raw::LayerKey, Vec<raw::Shape>>) -> Value {
    let mut v: Vec<(usize, Value)> = m
        .iter()
        .map(|(k, s)| (*kidx.get(k).unwrap_or(&nkeys), Value::Array(s.iter().map(jshape).collect())))
        .collect();
    v.sort_by_key(|e| e.0);
    Value::Array(v.into_iter().map(|(k, s)| json!([k, s])).collect())
}
fn jlib(lib: &raw::Library, probe: &[i16]) -> Value {
    let layers = lib.layers.read().unwrap();
    let mut kidx = HashMap::new();
    let mut jlayers = Vec::new();
    for (i, (k, l)) in layers.slots.iter().enumerate() {
        kidx.insert(k, i);
        let mut pairs = Vec::new();
        for n in probe {
            if let Some(p) = l.purpose(*n) {
                pairs.push(json!([n, jpurpose(p), l.num(p)]));
            }
        }
        jlayers.push(json!({"num": l.layernum, "name": l.name, "pairs": pairs, "keynum": layers.keynum(l.layernum).map(|k2| k2 == k)}));
    }
    let nkeys = kidx.len();
    let cidx = |p: &Ptr<raw::Cell>| -> Value {
        match lib.cells.iter().position(|q| q == p) {
            Some(i) => json!(i),
            None => Value::Null,
        }
    };
    let mut jcells = Vec::new();
    for c in lib.cells.iter() {
        let c = c.read().unwrap();
        let layout = match &c.layout {
            None => Value::Null,
            Some(l) => json!({
                "name": l.name,
                "insts": l.insts.iter().map(|i| json!({
                    "name": i.inst_name, "cell": cidx(&i.cell), "loc": jpt(&i.loc),
                    "reflect": i.reflect_vert, "angle": i.angle.map(|a| a.to_bits())})).collect::<Vec<_>>(),
                "elems": l.elems.iter().map(|e| json!({
                    "net": e.net, "layer": *kidx.get(&e.layer).unwrap_or(&nkeys),
                    "purpose": jpurpose(&e.purpose), "shape": jshape(&e.inner)})).collect::<Vec<_>>(),
                "annots": l.annotations.iter().map(|a| json!([a.string, jpt(&a.loc)])).collect::<Vec<_>>(),
            }),
        };
        let abs = match &c.abs {
            None => Value::Null,
            Some(a) => json!({
                "name": a.name,
                "outline": a.outline.points.iter().map(jpt).collect::<Vec<_>>(),
                "ports": a.ports.iter().map(|p| json!({"net": p.net, "shapes": jshapemap(&kidx, nkeys, &p.shapes)})).collect::<Vec<_>>(),
                "blockages": jshapemap(&kidx, nkeys, &a.blockages),
            }),
        };
        jcells.push(json!({"name": c.name, "layout": layout, "abs": abs}));
    }
    let units = match lib.units {
        raw::Units::Micro => "Micro",
        raw::Units::Nano => "Nano",
        raw::Units::Angstrom => "Angstrom",
        raw::Units::Pico => "Pico",
    };
    json!({"name": lib.name, "units": units, "layers": jlayers, "cells": jcells})
}

// ------------------------------------------------------------------ JSON <-> proto
fn ppt(v: &Value) -> Option<proto::Point> {
    if v.is_null() {
        None
    } else {
        Some(proto::Point::new(v[0].as_i64().unwrap(), v[1].as_i64().unwrap()))
    }
}
fn ppts(v: &Value) -> Vec<proto::Point> {
    v.as_array().unwrap().iter().map(|p| ppt(p).unwrap()).collect()
}
fn s(v: &Value) -> String {
    v.as_str().expect("string").to_string()
}
fn ppoly(v: &Value) -> proto::Polygon {
    proto::Polygon { net: s(&v["net"]), vertices: ppts(&v["v"]) }
}
fn pls(v: &Value) -> proto::LayerShapes {
    proto::LayerShapes {
        layer: if v["layer"].is_null() {
            None
        } else {
            Some(proto::Layer::new(v["layer"][0].as_i64().unwrap(), v["layer"][1].as_i64().unwrap()))
        },
        rectangles: v["rects"]
            .as_array()
            .unwrap()
            .iter()
            .map(|r| proto::Rectangle {
                net: s(&r["net"]),
                lower_left: ppt(&r["ll"]),
                width: r["w"].as_i64().unwrap(),
                height: r["h"].as_i64().unwrap(),
            })
            .collect(),
        polygons: v["polys"].as_array().unwrap().iter().map(ppoly).collect(),
        paths: v["paths"]
            .as_array()
            .unwrap()
            .iter()
            .map(|p| proto::Path { net: s(&p["net"]), points: ppts(&p["pts"]), width: p["w"].as_i64().unwrap() })
            .collect(),
    }
}
fn plss(v: &Value) -> Vec<proto::LayerShapes> {
    v.as_array().unwrap().iter().map(pls).collect()
}
fn build_plib(v: &Value) -> proto::Library {
    let mut plib = proto::Library::default();
    plib.domain = s(&v["domain"]);
    plib.units = v["units"].as_i64().unwrap() as i32;
    if v["author"].as_bool().unwrap_or(false) {
        plib.author = Some(proto::AuthorMetadata { author: "a".into(), copyright: "".into(), license: "".into() });
    }
    for c in v["cells"].as_array().unwrap() {
        let mut pc = proto::Cell::default();
        pc.name = s(&c["name"]);
        if c["circuit"].as_bool().unwrap_or(false) {
            pc.interface = Some(proto::Interface { name: pc.name.clone(), ports: Vec::new() });
        }
        if !c["abs"].is_null() {
            let a = &c["abs"];
            pc.r#abstract = Some(proto::Abstract {
                name: s(&a["name"]),
                outline: if a["outline"].is_null() { None } else { Some(ppoly(&a["outline"])) },
                ports: a["ports"]
                    .as_array()
                    .unwrap()
                    .iter()
                    .map(|p| proto::AbstractPort { net: s(&p["net"]), shapes: plss(&p["shapes"]) })
                    .collect(),
                blockages: plss(&a["blockages"]),
            });
        }
        if !c["layout"].is_null() {
            let l = &c["layout"];
            pc.layout = Some(proto::Layout {
                name: s(&l["name"]),
                shapes: plss(&l["shapes"]),
                instances: l["insts"]
                    .as_array()
                    .unwrap()
                    .iter()
                    .map(|i| proto::Instance {
                        name: s(&i["name"]),
                        cell: if i["cell"].is_null() {
                            None
                        } else if let Some(n) = i["cell"].get("local") {
                            Some(proto::Reference { to: Some(proto::reference::To::Local(s(n))) })
                        } else if let Some(e) = i["cell"].get("ext") {
                            Some(proto::Reference {
                                to: Some(proto::reference::To::External(proto::QualifiedName { domain: s(&e[0]), name: s(&e[1]) })),
                            })
                        } else {
                            Some(proto::Reference { to: None })
                        },
                        origin_location: ppt(&i["origin"]),
                        reflect_vert: i["reflect"].as_bool().unwrap(),
                        rotation_clockwise_degrees: i["rot"].as_i64().unwrap() as i32,
                    })
                    .collect(),
                annotations: l["annots"]
                    .as_array()
                    .unwrap()
                    .iter()
                    .map(|a| proto::TextElement { string: s(&a["s"]), loc: ppt(&a["loc"]) })
                    .collect(),
            });
        }
        plib.cells.push(pc);
    }
    plib
}
fn jppt(p: &Option<proto::Point>) -> Value {
    match p {
        Some(p) => json!([p.x, p.y]),
        None => Value::Null,
    }
}
fn jppts(v: &[proto::Point]) -> Value {
    Value::Array(v.iter().map(|p| json!([p.x, p.y])).collect())
}
fn jppoly(p: &proto::Polygon) -> Value {
    json!({"net": p.net, "v": jppts(&p.vertices)})
}
fn jpls(l: &proto::LayerShapes) -> Value {
    json!({
        "layer": l.layer.as_ref().map(|x| json!([x.number, x.purpose])),
        "rects": l.rectangles.iter().map(|r| json!({"net": r.net, "ll": jppt(&r.lower_left), "w": r.width, "h": r.height})).collect::<Vec<_>>(),
        "polys": l.polygons.iter().map(jppoly).collect::<Vec<_>>(),
        "paths": l.paths.iter().map(|p| json!({"net": p.net, "pts": jppts(&p.points), "w": p.width})).collect::<Vec<_>>(),
    })
}
/// hash-ordered lists (abstract ports' shapes, blockages) are printed sorted by layer (stable)
fn jplss(v: &[proto::LayerShapes], sort: bool) -> Value {
    let mut idx: Vec<&proto::LayerShapes> = v.iter().collect();
    if sort {
        idx.sort_by_key(|l| l.layer.as_ref().map(|x| (x.number, x.purpose)));
    }
    Value::Array(idx.into_iter().map(jpls).collect())
}
fn jplib(p: &proto::Library) -> Value {
    let mut cells = Vec::new();
    for c in &p.cells {
        let abs = match &c.r#abstract {
            None => Value::Null,
            Some(a) => json!({
                "name": a.name,
                "outline": a.outline.as_ref().map(jppoly),
                "ports": a.ports.iter().map(|p| json!({"net": p.net, "shapes": jplss(&p.shapes, false)})).collect::<Vec<_>>(),
                "blockages": jplss(&a.blockages, false),
            }),
        };
        let layout = match &c.layout {
            None => Value::Null,
            Some(l) => json!({
                "name": l.name,
                "shapes": jplss(&l.shapes, false),
                "insts": l.instances.iter().map(|i| json!({
                    "name": i.name,
                    "cell": match &i.cell {
                        None => Value::Null,
                        Some(r) => match &r.to {
                            None => json!({"to": Value::Null}),
                            Some(proto::reference::To::Local(n)) => json!({"local": n}),
                            Some(proto::reference::To::External(q)) => json!({"ext": [q.domain, q.name]}),
                        },
                    },
                    "origin": jppt(&i.origin_location), "reflect": i.reflect_vert, "rot": i.rotation_clockwise_degrees})).collect::<Vec<_>>(),
                "annots": l.annotations.iter().map(|a| json!({"s": a.string, "loc": jppt(&a.loc)})).collect::<Vec<_>>(),
            }),
        };
        cells.push(json!({"name": c.name, "circuit": c.interface.is_some() || c.module.is_some(), "abs": abs, "layout": layout}));
    }
    json!({"domain": p.domain, "units": p.units, "author": p.author.is_some(), "cells": cells})
}

// ------------------------------------------------------------------ driver
fn staged<T>(f: impl FnOnce() -> raw::LayoutResult<T>) -> Result<T, Value> {
    match catch_unwind(AssertUnwindSafe(f)) {
        Ok(Ok(v)) => Ok(v),
        Ok(Err(e)) => Err(json!({ "err": format!("{:?}", e).chars().take(160).collect::<String>() })),
        Err(p) => {
            let msg = if let Some(s) = p.downcast_ref::<&str>() {
                s.to_string()
            } else if let Some(s) = p.downcast_ref::<String>() {
                s.clone()
            } else {
                "panic".to_string()
            };
            Err(json!({ "panic": msg }))
        }
    }
}
fn probes(case: &Value) -> Vec<i16> {
    let mut v: Vec<i16> = (-1..=12).collect();
    if let Some(a) = case["probe"].as_array() {
        for x in a {
            let k = x.as_i64().unwrap() as i16;
            if !v.contains(&k) {
                v.push(k);
            }
        }
    }
    v.sort();
    v
}

fn run(case: &Value) -> Value {
    let probe = probes(case);
    match case["op"].as_str().unwrap_or("") {
        "raw" => {
            let lib = build_lib(&case["lib"]);
            let plib = match staged(|| lib.to_proto()) {
                Ok(p) => p,
                Err(e) => return json!({"proto": e, "raw": Value::Null}),
            };
            let jp = jplib(&plib);
            let layers = match case["import_layers"].as_str().unwrap_or("none") {
                "same" => Some(Ptr::new(lib.layers.read().unwrap().clone())),
                _ => None,
            };
            match staged(|| raw::Library::from_proto(plib, layers)) {
                Ok(l2) => json!({"proto": jp, "raw": jlib(&l2, &probe)}),
                Err(e) => json!({"proto": jp, "raw": e}),
            }
        }
        "proto" => {
            let plib = build_plib(&case["plib"]);
            let layers = if case["layers"].is_null() { None } else { Some(Ptr::new(build_layers(&case["layers"]).0)) };
            let lib = match staged(|| raw::Library::from_proto(plib, layers)) {
                Ok(l) => l,
                Err(e) => return json!({"raw": e, "proto": Value::Null}),
            };
            let jl = jlib(&lib, &probe);
            match staged(|| lib.to_proto()) {
                Ok(p2) => json!({"raw": jl, "proto": jplib(&p2)}),
                Err(e) => json!({"raw": jl, "proto": e}),
            }
        }
        _ => json!({"harness_error": "bad op"}),
    }
}

fn main() {
    l21h::main_loop(run);
}
