//! C18: JSON / YAML copies of GdsLibrary and LefLibrary values.
//! Input case: {"ty": "gds"|"lef", "val": <serde data-model JSON; doubles written as {"$f64": bits}>}
//! Output: the value as serde sees it (doubles again as {"$f64": bits}) and, for JSON and YAML, whether the
//! library's own helpers (to_string/from_str, save/open) return an equal and bit-identical value.
//! Layer 2 (JSON text, coq/Serde/JsonText.v):
//!   {"ty":"jsontext","val":<any JSON, doubles as {"$f64": bits}>,"wrap":n} -> the pretty text of the value (wrapped in n
//!     more containers), whether every reader returns the same value from it, and the token of every double in it;
//!   {"ty":"jsonparse","hex":<bytes of a text>} -> what from_slice / from_reader / from_str make of the text, through a
//!     visitor that keeps object entries in order (seq = array, map = {"m":[[k,v]..]}, double = {"f":bits});
//!   {"ty":"dedent","hex":<bytes of a text>} -> textwrap::dedent as applied by SerializationFormat::from_str, observed
//!     through a TOML multi-line literal string.
use l21h::{json, Value};
use layout21utils::{SerdeFile, SerializationFormat};
use serde::{de::DeserializeOwned, Serialize};
use std::panic::{catch_unwind, AssertUnwindSafe};

fn decode_floats(v: &Value) -> Value {
    match v {
        Value::Object(m) => {
            if m.len() == 1 {
                if let Some(b) = m.get("$f64") {
                    let bits = b.as_u64().expect("$f64 bits");
                    return Value::Number(serde_json::Number::from_f64(f64::from_bits(bits)).expect("finite"));
                }
            }
            Value::Object(m.iter().map(|(k, x)| (k.clone(), decode_floats(x))).collect())
        }
        Value::Array(a) => Value::Array(a.iter().map(decode_floats).collect()),
        _ => v.clone(),
    }
}
fn encode_floats(v: &Value) -> Value {
    match v {
        Value::Number(n) if n.is_f64() => json!({"$f64": n.as_f64().unwrap().to_bits()}),
        Value::Object(m) => Value::Object(m.iter().map(|(k, x)| (k.clone(), encode_floats(x))).collect()),
        Value::Array(a) => Value::Array(a.iter().map(encode_floats).collect()),
        _ => v.clone(),
    }
}

fn trip<T: Serialize + DeserializeOwned + PartialEq + SerdeFile>(v: &T, fmt: SerializationFormat, ext: &str, want_text: bool) -> Value {
    let orig = encode_floats(&serde_json::to_value(v).unwrap());
    // string helpers
    let text = match fmt.to_string(v) {
        Ok(t) => t,
        Err(e) => return json!({"to_string_err": e.to_string()}),
    };
    let (str_eq, str_bits) = match fmt.from_str::<T>(&text) {
        Ok(back) => (back == *v, encode_floats(&serde_json::to_value(&back).unwrap()) == orig),
        Err(e) => return json!({"from_str_err": e.to_string(), "text": text}),
    };
    // file helpers
    let dir = std::path::Path::new("/verif/work/c18/tmp");
    std::fs::create_dir_all(dir).unwrap();
    let path = dir.join(format!("t{}.{}", std::process::id(), ext));
    // The target of `save` may already exist (saving a library again after an edit): it starts out holding an
    // older, LONGER copy, so a `save` that does not replace the whole file leaves a tail behind.
    // ... and once a copy of ALMOST the same library (the same text with every blank doubled, i.e. one that differs only in
    // white space, inside strings too), so a `save` that decides the file is "already up to date" is seen as well.
    let mut file_eq = true;
    let mut file_bits = true;
    for old_content in [format!("{}\n{}\n", text, text), text.replace(' ', "  ")] {
        std::fs::write(&path, old_content).unwrap();
        match fmt.save(v, &path) {
            Err(e) => return json!({"save_err": e.to_string()}),
            Ok(()) => match fmt.open::<T>(&path) {
                Ok(back) => {
                    file_eq &= back == *v;
                    file_bits &= encode_floats(&serde_json::to_value(&back).unwrap()) == orig;
                }
                Err(e) => return json!({"open_err": e.to_string(), "text": text}),
            },
        }
    }
    let _ = std::fs::remove_file(&path);
    // Further histories and entry points (generator audit 2026-10-02): a path that does not exist yet; a path whose extension names
    // the OTHER format, and one without extension (the format is the argument, never the file name); the library's own helpers
    // `T::save(&self, path, fmt)` / `T::open(path, fmt)` (trait SerdeFile) and the free functions `ser::save` / `ser::open`.
    let other = if ext == "json" { "yaml" } else { "json" };
    let mut more = serde_json::Map::new();
    let mut more_ok = true;
    for (what, p) in [("fresh_path", dir.join(format!("f{}.{}", std::process::id(), ext))),
                      ("other_extension", dir.join(format!("x{}.{}", std::process::id(), other))),
                      ("no_extension", dir.join(format!("n{}", std::process::id())))] {
        let _ = std::fs::remove_file(&p);
        let r = match fmt.save(v, &p) {
            Err(e) => json!({"save_err": e.to_string()}),
            Ok(()) => match fmt.open::<T>(&p) {
                Ok(back) => json!(back == *v && encode_floats(&serde_json::to_value(&back).unwrap()) == orig
                                  && std::fs::read(&p).map(|b| b == text.as_bytes()).unwrap_or(false)),
                Err(e) => json!({"open_err": e.to_string()}),
            },
        };
        let _ = std::fs::remove_file(&p);
        more_ok &= r == json!(true);
        more.insert(what.to_string(), r);
    }
    for (what, by_trait) in [("trait_SerdeFile", true), ("free_functions", false)] {
        std::fs::write(&path, format!("{}\n{}\n", text, text)).unwrap();
        let sv = if by_trait { <T as SerdeFile>::save(v, &path, fmt) } else { layout21utils::ser::save(v, &path, fmt) };
        let r = match sv {
            Err(e) => json!({"save_err": e.to_string()}),
            Ok(()) => {
                let same_text = std::fs::read(&path).map(|b| b == text.as_bytes()).unwrap_or(false);
                let op = if by_trait { <T as SerdeFile>::open(&path, fmt) } else { layout21utils::ser::open::<T>(&path, fmt) };
                match op {
                    Ok(back) => json!(same_text && back == *v && encode_floats(&serde_json::to_value(&back).unwrap()) == orig),
                    Err(e) => json!({"open_err": e.to_string()}),
                }
            }
        };
        more_ok &= r == json!(true);
        more.insert(what.to_string(), r);
    }
    let _ = std::fs::remove_file(&path);
    let ok = str_eq && str_bits && file_eq && file_bits && more_ok;
    if ok && !want_text {
        json!({"ok": true})
    } else {
        json!({"ok": ok, "str_eq": str_eq, "str_bits": str_bits, "file_eq": file_eq, "file_bits": file_bits, "more": more, "text": text})
    }
}

/// The converter functions behind gds2json / gds2yaml / markup2gds (layout21converters::gds_serialization), on files:
/// GDSII file -> to_markup -> markup file (over an existing longer one) -> from_markup -> GDSII file. The bytes must be those of
/// reading and re-writing the GDSII file without the detour (so the GDSII codec's own behaviour, C01's subject, cancels out).
/// One entry per format: true / false / null (the library cannot be written or read as GDSII at all: not a case).
fn markup_files(b0: &[u8]) -> Value {
    use layout21converters::gds_serialization::{from_markup, to_markup, FromMarkupOptions, ToMarkupOptions};
    let dir = std::path::Path::new("/verif/work/c18/tmp");
    std::fs::create_dir_all(dir).unwrap();
    let pid = std::process::id();
    let g0 = dir.join(format!("g{}.gds", pid));
    std::fs::write(&g0, b0).unwrap();
    let direct = match gds21::GdsLibrary::load(&g0) {
        Ok(l) => {
            let mut b: Vec<u8> = Vec::new();
            if l.write(std::io::Cursor::new(&mut b)).is_ok() { Some(b) } else { None }
        }
        Err(_) => None,
    };
    let mut out = Vec::new();
    for (fmt, verbose) in [("json", false), ("yaml", true)] {
        let direct = match &direct {
            Some(b) => b,
            None => {
                out.push(Value::Null);
                continue;
            }
        };
        // the markup file's name says nothing about its format
        let m = dir.join(format!("m{}.{}", pid, if fmt == "json" { "txt" } else { "json" }));
        let g2 = dir.join(format!("h{}.gds", pid));
        std::fs::write(&m, "x".repeat(4 * b0.len() + 4096)).unwrap();
        std::fs::write(&g2, b0.repeat(2)).unwrap();
        let s = |p: &std::path::PathBuf| p.to_str().unwrap().to_string();
        let r = catch_unwind(AssertUnwindSafe(|| -> Result<(), String> {
            to_markup(&ToMarkupOptions { gds: s(&g0), fmt: fmt.to_string(), out: s(&m), verbose }).map_err(|e| e.to_string())?;
            from_markup(&FromMarkupOptions { gds: s(&g2), fmt: fmt.to_string(), inp: s(&m), verbose }).map_err(|e| e.to_string())
        }));
        out.push(match r {
            Ok(Ok(())) => Value::Bool(std::fs::read(&g2).map(|b| &b == direct).unwrap_or(false)),
            _ => Value::Bool(false),
        });
        let _ = std::fs::remove_file(&m);
        let _ = std::fs::remove_file(&g2);
    }
    let _ = std::fs::remove_file(&g0);
    Value::Array(out)
}

fn run_ty<T: Serialize + DeserializeOwned + PartialEq + SerdeFile>(val: &Value, want_text: bool) -> Result<(T, Value), Value> {
    let v: T = match serde_json::from_value(decode_floats(val)) {
        Ok(v) => v,
        Err(e) => return Err(json!({"de_err": e.to_string()})),
    };
    let seen = encode_floats(&serde_json::to_value(&v).unwrap());
    let j = trip(&v, SerializationFormat::Json, "json", want_text);
    let y = trip(&v, SerializationFormat::Yaml, "yaml", want_text);
    Ok((v, json!({"ser": seen, "json": j, "yaml": y})))
}

/// A self-describing tree that keeps the entries of an object in the order (and multiplicity) read.
struct Tree(Value);
impl<'de> serde::Deserialize<'de> for Tree {
    fn deserialize<D: serde::Deserializer<'de>>(d: D) -> Result<Self, D::Error> {
        struct V;
        impl<'de> serde::de::Visitor<'de> for V {
            type Value = Tree;
            fn expecting(&self, f: &mut std::fmt::Formatter) -> std::fmt::Result {
                f.write_str("any JSON value")
            }
            fn visit_unit<E>(self) -> Result<Tree, E> {
                Ok(Tree(Value::Null))
            }
            fn visit_bool<E>(self, b: bool) -> Result<Tree, E> {
                Ok(Tree(Value::Bool(b)))
            }
            fn visit_i64<E>(self, x: i64) -> Result<Tree, E> {
                Ok(Tree(json!(x)))
            }
            fn visit_u64<E>(self, x: u64) -> Result<Tree, E> {
                Ok(Tree(json!(x)))
            }
            fn visit_f64<E>(self, x: f64) -> Result<Tree, E> {
                Ok(Tree(json!({ "f": x.to_bits() })))
            }
            fn visit_str<E>(self, s: &str) -> Result<Tree, E> {
                Ok(Tree(Value::String(s.to_string())))
            }
            fn visit_seq<A: serde::de::SeqAccess<'de>>(self, mut a: A) -> Result<Tree, A::Error> {
                let mut v = Vec::new();
                while let Some(Tree(x)) = a.next_element()? {
                    v.push(x);
                }
                Ok(Tree(Value::Array(v)))
            }
            fn visit_map<A: serde::de::MapAccess<'de>>(self, mut a: A) -> Result<Tree, A::Error> {
                let mut v = Vec::new();
                while let Some(k) = a.next_key::<String>()? {
                    let Tree(x) = a.next_value()?;
                    v.push(json!([k, x]));
                }
                Ok(Tree(json!({ "m": v })))
            }
        }
        d.deserialize_any(V)
    }
}
fn enc_tree(r: serde_json::Result<Tree>) -> Value {
    match r {
        Ok(Tree(v)) => json!({ "ok": v }),
        Err(e) => json!({ "err": e.to_string() }),
    }
}
fn unhex(s: &str) -> Vec<u8> {
    (0..s.len() / 2).map(|i| u8::from_str_radix(&s[2 * i..2 * i + 2], 16).expect("hex")).collect()
}
fn float_tokens(v: &Value, out: &mut Vec<Value>) {
    match v {
        Value::Number(n) if n.is_f64() => {
            out.push(json!([n.as_f64().unwrap().to_bits(), serde_json::to_string(v).unwrap()]));
        }
        Value::Object(m) => m.values().for_each(|x| float_tokens(x, out)),
        Value::Array(a) => a.iter().for_each(|x| float_tokens(x, out)),
        _ => {}
    }
}
fn jsontext(case: &Value) -> Value {
    let mut v = decode_floats(&case["val"]);
    for i in 0..case["wrap"].as_u64().unwrap_or(0) {
        v = if i % 2 == 0 { Value::Array(vec![v]) } else { json!({ "k": v }) };
    }
    let text = serde_json::to_string_pretty(&v).unwrap();
    let orig = encode_floats(&v);
    let mut errs: Vec<String> = Vec::new();
    let mut same = |what: &str, r: Result<Value, String>| -> bool {
        match r {
            Ok(back) => {
                let eq = encode_floats(&back) == orig;
                if !eq {
                    errs.push(format!("{}: different value", what));
                }
                eq
            }
            Err(e) => {
                errs.push(format!("{}: {}", what, e));
                false
            }
        }
    };
    let str_ok = same("from_str", serde_json::from_str::<Value>(&text).map_err(|e| e.to_string()));
    let reader_ok = same("from_reader", serde_json::from_reader::<_, Value>(text.as_bytes()).map_err(|e| e.to_string()));
    let slice_ok = same("from_slice", serde_json::from_slice::<Value>(text.as_bytes()).map_err(|e| e.to_string()));
    let utils_ok = same("utils from_str", SerializationFormat::Json.from_str::<Value>(&text).map_err(|e| e.to_string()));
    let utils_text_same = SerializationFormat::Json.to_string(&v).map(|t| t == text).unwrap_or(false);
    let mut toks = Vec::new();
    float_tokens(&v, &mut toks);
    json!({"text": text, "reparsed_equal": str_ok && reader_ok && slice_ok && utils_ok, "utils_text_same": utils_text_same,
           "float_tokens": toks, "errs": errs})
}
fn jsonparse(case: &Value) -> Value {
    let bytes = unhex(case["hex"].as_str().expect("hex"));
    let slice = enc_tree(serde_json::from_slice::<Tree>(&bytes));
    let reader = enc_tree(serde_json::from_reader::<_, Tree>(&bytes[..]));
    let st = match std::str::from_utf8(&bytes) {
        Ok(s) => enc_tree(serde_json::from_str::<Tree>(s)),
        Err(_) => Value::Null,
    };
    json!({"slice": slice, "reader": reader, "str": st})
}
/// `  x = '''<LF><text><LF>  '''` is TOML for the one-entry table x -> <text>; SerializationFormat::from_str dedents the
/// whole document first, so the string that comes back is the dedented text (for texts that TOML accepts verbatim).
fn dedent_probe(case: &Value) -> Value {
    let bytes = unhex(case["hex"].as_str().expect("hex"));
    let text = match String::from_utf8(bytes) {
        Ok(s) => s,
        Err(_) => return json!({"harness_error": "dedent text is not UTF-8"}),
    };
    match SerializationFormat::Toml.from_str::<std::collections::BTreeMap<String, String>>(&text) {
        Ok(m) => json!({ "ok": m }),
        Err(e) => json!({ "err": e.to_string() }),
    }
}

// Layer 2 tie (coq/Serde/JsonTextCheck.v): the JSON text that `SerializationFormat::Json.to_string` writes for a value,
// what `SerializationFormat::Json.from_str` (dedent + serde_json::from_str) and `SerializationFormat::Json.open`
// (serde_json::from_reader on the saved file) read from it through `deserialize_any` (order-keeping [`Tree`]), and the two
// float oracles of the model, taken from the implementation for this text: `fmt` = (bits, printed token) of every double
// of the value, `parse` = (token, bits) for every maximal run of the bytes `0-9 + - . e E` in the text that serde_json
// reads, standing alone, as an f64.
//   {"ty":"jsonlayer","lib":"gds"|"lef","val":<data-model JSON>}           the typed library value
//   {"ty":"jsonlayer","lib":"any","val":<any JSON>,"wrap":n}                 a serde_json::Value (keys sorted), wrapped n times
//   {"ty":"jsonlayer","lib":"text","hex":<bytes>}                            a given text (no `fmt`)
fn num_runs(text: &[u8]) -> Vec<Value> {
    let is_num = |b: u8| b.is_ascii_digit() || b == b'+' || b == b'-' || b == b'.' || b == b'e' || b == b'E';
    let mut seen = std::collections::BTreeSet::new();
    let mut out = Vec::new();
    let mut i = 0;
    while i < text.len() {
        if is_num(text[i]) {
            let mut j = i;
            while j < text.len() && is_num(text[j]) {
                j += 1;
            }
            let tok = std::str::from_utf8(&text[i..j]).unwrap().to_string();
            if seen.insert(tok.clone()) {
                if let Ok(Tree(t)) = serde_json::from_str::<Tree>(&tok) {
                    if let Some(b) = t.get("f") {
                        out.push(json!([tok, b]));
                    }
                }
            }
            i = j;
        } else {
            i += 1;
        }
    }
    out
}
fn read_back(text_bytes: &[u8], saved: Option<&std::path::Path>) -> (Value, Value) {
    let st = match std::str::from_utf8(text_bytes) {
        Ok(s) => match SerializationFormat::Json.from_str::<Tree>(s) {
            Ok(Tree(v)) => json!({ "ok": v }),
            Err(e) => json!({ "err": e.to_string() }),
        },
        Err(_) => Value::Null,
    };
    let dir = std::path::Path::new("/verif/work/c18/tmp");
    std::fs::create_dir_all(dir).unwrap();
    let own = dir.join(format!("j{}.json", std::process::id()));
    let path = match saved {
        Some(p) => p,
        None => {
            std::fs::write(&own, text_bytes).unwrap();
            &own
        }
    };
    let op = match SerializationFormat::Json.open::<Tree>(path) {
        Ok(Tree(v)) => json!({ "ok": v }),
        Err(e) => json!({ "err": e.to_string() }),
    };
    let _ = std::fs::remove_file(path);
    (st, op)
}
fn jsonlayer_of<T: Serialize>(v: &T) -> Value {
    let text = match SerializationFormat::Json.to_string(v) {
        Ok(t) => t,
        Err(e) => return json!({"to_string_err": e.to_string()}),
    };
    let mut toks = Vec::new();
    float_tokens(&serde_json::to_value(v).unwrap(), &mut toks);
    let dir = std::path::Path::new("/verif/work/c18/tmp");
    std::fs::create_dir_all(dir).unwrap();
    let path = dir.join(format!("s{}.json", std::process::id()));
    // `save` over an older, longer file, as in `trip`
    std::fs::write(&path, format!("{}\n{}\n", text, text)).unwrap();
    if let Err(e) = SerializationFormat::Json.save(v, &path) {
        return json!({"save_err": e.to_string()});
    }
    let saved_same = std::fs::read(&path).map(|b| b == text.as_bytes()).unwrap_or(false);
    let (st, op) = read_back(text.as_bytes(), Some(&path));
    json!({"text": text, "fmt": toks, "parse": num_runs(text.as_bytes()), "from_str": st, "open": op, "saved_same": saved_same})
}
fn jsonlayer(case: &Value) -> Value {
    match case["lib"].as_str().unwrap_or("") {
        "gds" => match serde_json::from_value::<gds21::GdsLibrary>(decode_floats(&case["val"])) {
            Ok(v) => jsonlayer_of(&v),
            Err(e) => json!({"de_err": e.to_string()}),
        },
        "lef" => match serde_json::from_value::<lef21::LefLibrary>(decode_floats(&case["val"])) {
            Ok(v) => jsonlayer_of(&v),
            Err(e) => json!({"de_err": e.to_string()}),
        },
        "any" => {
            let mut v = decode_floats(&case["val"]);
            for i in 0..case["wrap"].as_u64().unwrap_or(0) {
                v = if i % 2 == 0 { Value::Array(vec![v]) } else { json!({ "k": v }) };
            }
            jsonlayer_of(&v)
        }
        "text" => {
            let bytes = unhex(case["hex"].as_str().expect("hex"));
            let (st, op) = read_back(&bytes, None);
            json!({"parse": num_runs(&bytes), "from_str": st, "open": op})
        }
        _ => json!({"harness_error": "bad lib"}),
    }
}

fn run(case: &Value) -> Value {
    let want_text = case["want_text"].as_bool().unwrap_or(false);
    match case["ty"].as_str().unwrap_or("") {
        "gds" => match run_ty::<gds21::GdsLibrary>(&case["val"], want_text) {
            Err(e) => e,
            Ok((lib, mut out)) => {
                // GDSII -> markup -> GDSII gives the same bytes (when the library can be written at all)
                let mut b0: Vec<u8> = Vec::new();
                let w0 = lib.write(std::io::Cursor::new(&mut b0)).is_ok();
                let mut same = Vec::new();
                for fmt in [SerializationFormat::Json, SerializationFormat::Yaml] {
                    let r = fmt.to_string(&lib).ok().and_then(|t| fmt.from_str::<gds21::GdsLibrary>(&t).ok());
                    match r {
                        Some(back) => {
                            let mut b1: Vec<u8> = Vec::new();
                            let w1 = back.write(std::io::Cursor::new(&mut b1)).is_ok();
                            same.push(Value::Bool(w0 == w1 && (!w0 || b0 == b1)));
                        }
                        None => same.push(Value::Null),
                    }
                }
                out["gds_bytes_same"] = Value::Array(same);
                out["gds_writable"] = Value::Bool(w0);
                out["gds_files_same"] = if w0 { markup_files(&b0) } else { json!([null, null]) };
                out
            }
        },
        "lef" => match run_ty::<lef21::LefLibrary>(&case["val"], want_text) {
            Err(e) => e,
            Ok((_, out)) => out,
        },
        // a value the markup formats cannot express: built directly
        "lef_some_unsupported" => {
            let mut lib = lef21::LefLibrary::new();
            lib.layers = Some(lef21::Unsupported);
            let j = trip(&lib, SerializationFormat::Json, "json", true);
            let y = trip(&lib, SerializationFormat::Yaml, "yaml", true);
            json!({"json": j, "yaml": y})
        }
        "jsontext" => jsontext(case),
        "jsonparse" => jsonparse(case),
        "dedent" => dedent_probe(case),
        "jsonlayer" => jsonlayer(case),
        _ => json!({"harness_error": "bad ty"}),
    }
}

fn main() {
    l21h::main_loop(run);
}
