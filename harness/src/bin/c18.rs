//! C18: JSON / YAML copies of GdsLibrary and LefLibrary values.
//! Input case: {"ty": "gds"|"lef", "val": <serde data-model JSON; doubles written as {"$f64": bits}>}
//! Output: the value as serde sees it (doubles again as {"$f64": bits}) and, for JSON and YAML, whether the
//! library's own helpers (to_string/from_str, save/open) return an equal and bit-identical value.
use l21h::{json, Value};
use layout21utils::SerializationFormat;
use serde::{de::DeserializeOwned, Serialize};

fn decode_floats(v: &Value) -> Value {
    match v {
        Value::Object(m) => {
            if m.len() == 1 {
                if let Some(b) = m.get("$f64") {
                    let bits = b.as_u64().expect("$f64 bits");
                    return Value::Number(serde_json::Number::from_f64(f64::from_bits(bits)).expect("finite"));
                }
            }
            Value::Object(m.iter().map(|(k, x)| (k.clone(), decode_floats(x))).collect())
        }
        Value::Array(a) => Value::Array(a.iter().map(decode_floats).collect()),
        _ => v.clone(),
    }
}
fn encode_floats(v: &Value) -> Value {
    match v {
        Value::Number(n) if n.is_f64() => json!({"$f64": n.as_f64().unwrap().to_bits()}),
        Value::Object(m) => Value::Object(m.iter().map(|(k, x)| (k.clone(), encode_floats(x))).collect()),
        Value::Array(a) => Value::Array(a.iter().map(encode_floats).collect()),
        _ => v.clone(),
    }
}

fn trip<T: Serialize + DeserializeOwned + PartialEq>(v: &T, fmt: SerializationFormat, ext: &str, want_text: bool) -> Value {
    let orig = encode_floats(&serde_json::to_value(v).unwrap());
    // string helpers
    let text = match fmt.to_string(v) {
        Ok(t) => t,
        Err(e) => return json!({"to_string_err": e.to_string()}),
    };
    let (str_eq, str_bits) = match fmt.from_str::<T>(&text) {
        Ok(back) => (back == *v, encode_floats(&serde_json::to_value(&back).unwrap()) == orig),
        Err(e) => return json!({"from_str_err": e.to_string(), "text": text}),
    };
    // file helpers
    let dir = std::path::Path::new("/verif/work/c18/tmp");
    std::fs::create_dir_all(dir).unwrap();
    let path = dir.join(format!("t{}.{}", std::process::id(), ext));
    let (file_eq, file_bits) = match fmt.save(v, &path) {
        Err(e) => return json!({"save_err": e.to_string()}),
        Ok(()) => match fmt.open::<T>(&path) {
            Ok(back) => (back == *v, encode_floats(&serde_json::to_value(&back).unwrap()) == orig),
            Err(e) => return json!({"open_err": e.to_string(), "text": text}),
        },
    };
    let _ = std::fs::remove_file(&path);
    let ok = str_eq && str_bits && file_eq && file_bits;
    if ok && !want_text {
        json!({"ok": true})
    } else {
        json!({"ok": ok, "str_eq": str_eq, "str_bits": str_bits, "file_eq": file_eq, "file_bits": file_bits, "text": text})
    }
}

fn run_ty<T: Serialize + DeserializeOwned + PartialEq>(val: &Value, want_text: bool) -> Result<(T, Value), Value> {
    let v: T = match serde_json::from_value(decode_floats(val)) {
        Ok(v) => v,
        Err(e) => return Err(json!({"de_err": e.to_string()})),
    };
    let seen = encode_floats(&serde_json::to_value(&v).unwrap());
    let j = trip(&v, SerializationFormat::Json, "json", want_text);
    let y = trip(&v, SerializationFormat::Yaml, "yaml", want_text);
    Ok((v, json!({"ser": seen, "json": j, "yaml": y})))
}

fn run(case: &Value) -> Value {
    let want_text = case["want_text"].as_bool().unwrap_or(false);
    match case["ty"].as_str().unwrap_or("") {
        "gds" => match run_ty::<gds21::GdsLibrary>(&case["val"], want_text) {
            Err(e) => e,
            Ok((lib, mut out)) => {
                // GDSII -> markup -> GDSII gives the same bytes (when the library can be written at all)
                let mut b0: Vec<u8> = Vec::new();
                let w0 = lib.write(std::io::Cursor::new(&mut b0)).is_ok();
                let mut same = Vec::new();
                for fmt in [SerializationFormat::Json, SerializationFormat::Yaml] {
                    let r = fmt.to_string(&lib).ok().and_then(|t| fmt.from_str::<gds21::GdsLibrary>(&t).ok());
                    match r {
                        Some(back) => {
                            let mut b1: Vec<u8> = Vec::new();
                            let w1 = back.write(std::io::Cursor::new(&mut b1)).is_ok();
                            same.push(Value::Bool(w0 == w1 && (!w0 || b0 == b1)));
                        }
                        None => same.push(Value::Null),
                    }
                }
                out["gds_bytes_same"] = Value::Array(same);
                out["gds_writable"] = Value::Bool(w0);
                out
            }
        },
        "lef" => match run_ty::<lef21::LefLibrary>(&case["val"], want_text) {
            Err(e) => e,
            Ok((_, out)) => out,
        },
        // a value the markup formats cannot express: built directly
        "lef_some_unsupported" => {
            let mut lib = lef21::LefLibrary::new();
            lib.layers = Some(lef21::Unsupported);
            let j = trip(&lib, SerializationFormat::Json, "json", true);
            let y = trip(&lib, SerializationFormat::Yaml, "yaml", true);
            json!({"json": j, "yaml": y})
        }
        _ => json!({"harness_error": "bad ty"}),
    }
}

fn main() {
    l21h::main_loop(run);
}
