//! C16: LEF -> raw import (`layout21raw::lef::LefImporter::import`).
//!
//! Case formats (one JSON object per line):
//!   {"op":"struct", "layers": null | [[num, name|null], ...], "ncs": null|"on"|"off", "macros":[MACRO...]}
//!   {"op":"text", "text": "<LEF source>", "tmp": "<path of a scratch file>", "layers": ...}
//!   {"op":"dec", "d": DEC}        -- probe of the rust_decimal operations the importer uses
//! MACRO = {"name": s, "size": null|[DEC,DEC], "pins":[{"name": s, "ports":[[LG...]...]}], "obs":[LG...]}
//! LG    = {"layer": s, "width": null|DEC, "spacing": null|["s"|"d", DEC], "epg": null|bool, "nvias": n, "geoms":[G...]}
//! G     = ["r", P, P] | ["p", [P...]] | ["w", [P...]] | ["i", G]            (rect, polygon, path, iterate)
//! P     = [DEC, DEC]        DEC = [negative: bool, "magnitude digits", scale]
//!
//! Output: {"lib": <the LefLibrary actually imported, in the case format>, "res": {"ok": LIB} | {"err": msg}}
//! LIB = {"name","units","cells":[{"name","has_layout","abs": null|{"name","outline":[[x,y]..],
//!        "ports":[{"net","shapes":[[key,[SHAPE..]]..]}],"blockages":[[key,[SHAPE..]]..]}}],
//!        "layers":{"slots":[[num,name|null]..],"nums":[[num,key]..],"names":[[name,key]..]}}
//! A layer `key` is the position of the layer in the slot-map's iteration order (= insertion order);
//! hash-map ordered lists are sorted by key / number / name.
use l21h::{json, Value};
use layout21raw as raw;
use lef21::LefDecimal;
use raw::utils::Ptr;
use std::collections::HashMap;

// ---------------------------------------------------------------- decimals
fn dec_of(v: &Value) -> LefDecimal {
    let neg = v[0].as_bool().expect("dec neg");
    let mag: i128 = v[1].as_str().expect("dec magnitude string").parse().expect("dec magnitude");
    let scale = v[2].as_u64().expect("dec scale") as u32;
    let mut d = LefDecimal::try_from_i128_with_scale(mag, scale).expect("decimal out of representable range");
    d.set_sign_negative(neg);
    d
}
fn dec_json(d: &LefDecimal) -> Value {
    json!([d.is_sign_negative(), d.mantissa().unsigned_abs().to_string(), d.scale()])
}
fn pt_of(v: &Value) -> lef21::LefPoint {
    lef21::LefPoint { x: dec_of(&v[0]), y: dec_of(&v[1]) }
}
fn pt_json(p: &lef21::LefPoint) -> Value {
    json!([dec_json(&p.x), dec_json(&p.y)])
}
fn pts_of(v: &Value) -> Vec<lef21::LefPoint> {
    v.as_array().expect("points").iter().map(pt_of).collect()
}

// ---------------------------------------------------------------- case -> LefLibrary
fn shape_of(g: &Value) -> lef21::LefShape {
    match g[0].as_str().expect("geom tag") {
        "r" => lef21::LefShape::Rect(None, pt_of(&g[1]), pt_of(&g[2])),
        "p" => lef21::LefShape::Polygon(None, pts_of(&g[1])),
        "w" => lef21::LefShape::Path(None, pts_of(&g[1])),
        t => panic!("harness: bad shape tag {}", t),
    }
}
fn geom_of(g: &Value) -> lef21::LefGeometry {
    if g[0].as_str() == Some("i") {
        let one = LefDecimal::from(1u32);
        lef21::LefGeometry::Iterate {
            shape: shape_of(&g[1]),
            pattern: lef21::LefStepPattern { numx: one, numy: one, spacex: one, spacey: one },
        }
    } else {
        lef21::LefGeometry::Shape(shape_of(g))
    }
}
fn lg_of(v: &Value) -> lef21::LefLayerGeometries {
    let mut lg = lef21::LefLayerGeometries::default();
    lg.layer_name = v["layer"].as_str().expect("layer").to_string();
    lg.geometries = v["geoms"].as_array().expect("geoms").iter().map(geom_of).collect();
    if !v["width"].is_null() {
        lg.width = Some(dec_of(&v["width"]));
    }
    if !v["spacing"].is_null() {
        let d = dec_of(&v["spacing"][1]);
        lg.spacing = Some(match v["spacing"][0].as_str().expect("spacing tag") {
            "s" => lef21::LefLayerSpacing::Spacing(d),
            _ => lef21::LefLayerSpacing::DesignRuleWidth(d),
        });
    }
    if !v["epg"].is_null() {
        lg.except_pg_net = Some(v["epg"].as_bool().expect("epg"));
    }
    for _ in 0..v["nvias"].as_u64().unwrap_or(0) {
        lg.vias.push(lef21::LefVia {
            via_name: "v".to_string(),
            pt: lef21::LefPoint { x: LefDecimal::from(0u32), y: LefDecimal::from(0u32) },
        });
    }
    lg
}
fn lib_of(case: &Value) -> lef21::LefLibrary {
    let mut lib = lef21::LefLibrary::default();
    lib.names_case_sensitive = match case["ncs"].as_str() {
        Some("on") => Some(lef21::LefOnOff::On),
        Some("off") => Some(lef21::LefOnOff::Off),
        _ => None,
    };
    // `UNITS DATABASE MICRONS n ;` (and nothing else in UNITS): the importer must keep scaling microns to its own
    // raw units whatever grid the LEF file declares for its database
    if let Some(n) = case["dbu"].as_i64() {
        let mut u = lef21::LefUnits::default();
        u.database_microns = Some(lef21::LefDbuPerMicron::try_new(lef21::LefDecimal::from(n)).expect("legal DATABASE MICRONS value"));
        lib.units = Some(u);
    }
    for m in case["macros"].as_array().expect("macros") {
        let mut mac = lef21::LefMacro::new(m["name"].as_str().expect("macro name"));
        if !m["size"].is_null() {
            mac.size = Some((dec_of(&m["size"][0]), dec_of(&m["size"][1])));
        }
        for p in m["pins"].as_array().expect("pins") {
            let mut pin = lef21::LefPin::default();
            pin.name = p["name"].as_str().expect("pin name").to_string();
            for port in p["ports"].as_array().expect("ports") {
                let mut lp = lef21::LefPort::default();
                lp.layers = port.as_array().expect("port layers").iter().map(lg_of).collect();
                pin.ports.push(lp);
            }
            mac.pins.push(pin);
        }
        mac.obs = m["obs"].as_array().expect("obs").iter().map(lg_of).collect();
        lib.macros.push(mac);
    }
    lib
}

// ---------------------------------------------------------------- LefLibrary -> case format (echo)
fn shape_json(s: &lef21::LefShape) -> Value {
    match s {
        lef21::LefShape::Rect(_, p0, p1) => json!(["r", pt_json(p0), pt_json(p1)]),
        lef21::LefShape::Polygon(_, pts) => json!(["p", pts.iter().map(pt_json).collect::<Vec<_>>()]),
        lef21::LefShape::Path(_, pts) => json!(["w", pts.iter().map(pt_json).collect::<Vec<_>>()]),
    }
}
fn lg_json(lg: &lef21::LefLayerGeometries) -> Value {
    let geoms: Vec<Value> = lg
        .geometries
        .iter()
        .map(|g| match g {
            lef21::LefGeometry::Shape(s) => shape_json(s),
            lef21::LefGeometry::Iterate { shape, .. } => json!(["i", shape_json(shape)]),
        })
        .collect();
    json!({
        "layer": lg.layer_name,
        "width": lg.width.as_ref().map(dec_json),
        "spacing": lg.spacing.as_ref().map(|s| match s {
            lef21::LefLayerSpacing::Spacing(d) => json!(["s", dec_json(d)]),
            lef21::LefLayerSpacing::DesignRuleWidth(d) => json!(["d", dec_json(d)]),
        }),
        "epg": lg.except_pg_net,
        "nvias": lg.vias.len(),
        "geoms": geoms,
    })
}
fn lib_json(lib: &lef21::LefLibrary) -> Value {
    let macros: Vec<Value> = lib
        .macros
        .iter()
        .map(|m| {
            let pins: Vec<Value> = m
                .pins
                .iter()
                .map(|p| {
                    let ports: Vec<Value> =
                        p.ports.iter().map(|pt| Value::Array(pt.layers.iter().map(lg_json).collect())).collect();
                    json!({"name": p.name, "ports": ports})
                })
                .collect();
            json!({
                "name": m.name,
                "size": m.size.as_ref().map(|s| json!([dec_json(&s.0), dec_json(&s.1)])),
                "pins": pins,
                "obs": m.obs.iter().map(lg_json).collect::<Vec<_>>(),
            })
        })
        .collect();
    json!({
        "ncs": match lib.names_case_sensitive { Some(lef21::LefOnOff::On) => json!("on"), Some(lef21::LefOnOff::Off) => json!("off"), None => Value::Null },
        "nsites": lib.sites.len(),
        "macros": macros,
    })
}

// ---------------------------------------------------------------- raw Library -> JSON
fn rpt(p: &raw::Point) -> Value {
    json!([p.x as i64, p.y as i64])
}
fn rshape(s: &raw::Shape) -> Value {
    match s {
        raw::Shape::Rect(r) => json!(["r", rpt(&r.p0), rpt(&r.p1)]),
        raw::Shape::Polygon(p) => json!(["p", p.points.iter().map(rpt).collect::<Vec<_>>()]),
        raw::Shape::Path(p) => json!(["w", p.width as u64, p.points.iter().map(rpt).collect::<Vec<_>>()]),
    }
}
fn rshapes(m: &HashMap<raw::LayerKey, Vec<raw::Shape>>, keyidx: &HashMap<raw::LayerKey, i64>) -> Value {
    let mut v: Vec<(i64, Value)> = m
        .iter()
        .map(|(k, shapes)| (*keyidx.get(k).unwrap_or(&-1), Value::Array(shapes.iter().map(rshape).collect())))
        .collect();
    v.sort_by_key(|e| e.0);
    Value::Array(v.into_iter().map(|(k, s)| json!([k, s])).collect())
}
fn rlib_json(lib: &raw::Library) -> Value {
    let layers = lib.layers.read().expect("layers lock");
    let mut keyidx: HashMap<raw::LayerKey, i64> = HashMap::new();
    let mut slots = Vec::new();
    for (i, (k, l)) in layers.slots.iter().enumerate() {
        keyidx.insert(k, i as i64);
        slots.push(json!([l.layernum, l.name]));
    }
    let mut nums: Vec<(i16, i64)> = layers.nums.iter().map(|(n, k)| (*n, *keyidx.get(k).unwrap_or(&-1))).collect();
    nums.sort();
    let mut names: Vec<(String, i64)> = layers.names.iter().map(|(n, k)| (n.clone(), *keyidx.get(k).unwrap_or(&-1))).collect();
    names.sort();
    let mut cells = Vec::new();
    for c in lib.cells.iter() {
        let c = c.read().expect("cell lock");
        let abs = match &c.abs {
            None => Value::Null,
            Some(a) => {
                let ports: Vec<Value> =
                    a.ports.iter().map(|p| json!({"net": p.net, "shapes": rshapes(&p.shapes, &keyidx)})).collect();
                json!({
                    "name": a.name,
                    "outline": a.outline.points.iter().map(rpt).collect::<Vec<_>>(),
                    "ports": ports,
                    "blockages": rshapes(&a.blockages, &keyidx),
                })
            }
        };
        cells.push(json!({"name": c.name, "has_layout": c.layout.is_some(), "abs": abs}));
    }
    json!({
        "name": lib.name,
        "units": format!("{:?}", lib.units),
        "cells": cells,
        "layers": {"slots": slots, "nums": nums, "names": names},
    })
}

fn layers_of(v: &Value) -> Option<Ptr<raw::Layers>> {
    if v.is_null() {
        return None;
    }
    let mut layers = raw::Layers::default();
    for l in v.as_array().expect("layers") {
        let num = l[0].as_i64().expect("layer num") as i16;
        let layer = match l[1].as_str() {
            Some(n) => raw::Layer::new(num, n),
            None => raw::Layer::from_num(num),
        };
        layers.add(layer);
    }
    Some(Ptr::new(layers))
}

fn import(lib: &lef21::LefLibrary, layers: &Value) -> Value {
    let echo = lib_json(lib);
    let res = match raw::lef::LefImporter::import(lib, layers_of(layers)) {
        Ok(rlib) => json!({ "ok": rlib_json(&rlib) }),
        Err(e) => json!({ "err": format!("{:?}", e) }),
    };
    json!({"lib": echo, "res": res})
}

fn run(case: &Value) -> Value {
    match case["op"].as_str().unwrap_or("") {
        "struct" => {
            let lib = lib_of(case);
            import(&lib, &case["layers"])
        }
        "text" => {
            let path = case["tmp"].as_str().expect("tmp path");
            std::fs::write(path, case["text"].as_str().expect("text")).expect("write scratch file");
            let r = lef21::LefLibrary::open(path);
            let _ = std::fs::remove_file(path);
            match r {
                Ok(lib) => import(&lib, &case["layers"]),
                Err(e) => json!({"parse_err": format!("{:?}", e)}),
            }
        }
        // the decimal operations used by import_dist (and by the proposed repair), one by one
        "dec" => {
            let d = dec_of(&case["d"]);
            let k = LefDecimal::from(10_000u32);
            match d.checked_mul(k) {
                None => json!({"d": dec_json(&d), "mul": null}),
                Some(s) => json!({
                    "d": dec_json(&d),
                    "mul": dec_json(&s),
                    "fract_zero": s.fract().is_zero(),
                    "mantissa": s.mantissa().to_string(),
                    "trunc": dec_json(&s.trunc()),
                    "trunc_mantissa": s.trunc().mantissa().to_string(),
                    "spacing_zero": lef21::LefLayerSpacing::Spacing(d) == lef21::LefLayerSpacing::Spacing(LefDecimal::ZERO),
                }),
            }
        }
        _ => json!({"harness_error": "bad op"}),
    }
}

fn main() {
    l21h::main_loop(run);
}
