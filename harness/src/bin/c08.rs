//! C08: compile gridded (tetris) cells to raw geometry through the public API
//! (`Stack::validate`, `Library::to_raw` = `RawExporter::convert`) and print the shapes of every
//! cell canonically, IN THE ORDER the exporter produced them.
//!
//! Case: {"op":"compile", "stack":S, "cells":[C..]}  |  {"op":"tracks", "stack":S, "n":K}
//!  S = {"prim":[px,py], "metals":[{"dir":"h"|"v","cutsize":i,"entries":[E..],"offset":i,"overlap":i,
//!        "flip":bool,"prim":"stack"|"split"|"prim","raw":id|null}], "vias":[{"bot":i|null,"top":i|null,"size":[x,y],"raw":id|null}]}
//!  E = ["g",w] | ["s",w] | ["p",w] (power rail) | ["n",w] (ground rail) | ["r",[E..],nrep]
//!  C = {"metals":n,"outline":[x,y],"insts":[{"cell":idx,"loc":[x,y],"rh":b,"rv":b}],
//!       "cuts":[[tl,tt,cl,ct]..], "assigns":[[net,tl,tt,cl,ct]..]}   (net: integer k -> name "n<k>", 0 -> "")
//!  A layer id is  layernum*1000 + purposenum(Drawing).
//! Result compile: {"ok":[[ [lay,x0,y0,x1,y1,net]..] per cell], "pitches":[..]} | {"err":msg} | {"stack_err":msg}
//!  net: 0 = none, k = "n<k>", -1 = "VDD", -2 = "VSS", -99 = anything else.
//! Result tracks: {"tracks":[[ [center,span0,span1] x K ] per metal], "pitches":[..]}
use l21h::{json, Value};
use layout21raw as raw;
use layout21tetris::{
    cell::Cell,
    coords::{DbUnits, PrimPitches, Xy},
    instance::Instance,
    layout::Layout,
    library::Library,
    outline::Outline,
    placement::Place,
    stack::*,
    tracks::*,
    validate::ValidStack,
};
use layout21utils::{Ptr, PtrList};
use raw::{Dir, LayerPurpose, Units};

fn iz(v: &Value) -> isize {
    v.as_i64().expect("integer") as isize
}
fn uz(v: &Value) -> usize {
    v.as_u64().expect("unsigned integer") as usize
}

fn entry(v: &Value) -> TrackEntry {
    let k = v[0].as_str().expect("entry kind");
    let w = DbUnits(iz(&v[1]));
    let ttype = match k {
        "g" => TrackType::Gap,
        "s" => TrackType::Signal,
        "p" => TrackType::Rail(RailKind::Pwr),
        "n" => TrackType::Rail(RailKind::Gnd),
        _ => panic!("harness: bad entry kind"),
    };
    TrackEntry { ttype, width: w }
}
fn spec(v: &Value) -> TrackSpec {
    if v[0].as_str() == Some("r") {
        let es: Vec<TrackEntry> = v[1].as_array().expect("repeat entries").iter().map(entry).collect();
        TrackSpec::Repeat(Repeat::new(es, uz(&v[2])))
    } else {
        TrackSpec::Entry(entry(v))
    }
}

/// layer id -> (layernum, purposenum)
fn add_layer(layers: &mut raw::Layers, id: &Value) -> Option<raw::LayerKey> {
    if id.is_null() {
        return None;
    }
    let id = id.as_i64().expect("layer id");
    let (num, purp) = ((id / 1000) as i16, (id % 1000) as i16);
    Some(layers.add(raw::Layer::from_pairs(num, &[(purp, LayerPurpose::Drawing)]).expect("layer")))
}

fn build_stack(s: &Value) -> (Stack, Ptr<raw::Layers>) {
    let mut layers = raw::Layers::default();
    let boundary = layers.add(raw::Layer::from_pairs(236, &[(0, LayerPurpose::Outline)]).expect("boundary"));
    let mut metals = Vec::new();
    for (i, m) in s["metals"].as_array().expect("metals").iter().enumerate() {
        metals.push(MetalLayer {
            name: format!("met{}", i + 1),
            dir: if m["dir"].as_str() == Some("h") { Dir::Horiz } else { Dir::Vert },
            cutsize: DbUnits(iz(&m["cutsize"])),
            entries: m["entries"].as_array().expect("entries").iter().map(spec).collect(),
            offset: DbUnits(iz(&m["offset"])),
            overlap: DbUnits(iz(&m["overlap"])),
            flip: if m["flip"].as_bool().unwrap_or(false) { FlipMode::EveryOther } else { FlipMode::None },
            prim: match m["prim"].as_str().unwrap_or("stack") {
                "prim" => PrimitiveMode::Prim,
                "split" => PrimitiveMode::Split,
                _ => PrimitiveMode::Stack,
            },
            raw: add_layer(&mut layers, &m["raw"]),
        });
    }
    let mut vias = Vec::new();
    for (i, v) in s["vias"].as_array().expect("vias").iter().enumerate() {
        let tgt = |x: &Value| if x.is_null() { ViaTarget::Primitive } else { ViaTarget::Metal(uz(x)) };
        vias.push(ViaLayer {
            name: format!("via{}", i),
            top: tgt(&v["top"]),
            bot: tgt(&v["bot"]),
            size: Xy::new(DbUnits(iz(&v["size"][0])), DbUnits(iz(&v["size"][1]))),
            raw: add_layer(&mut layers, &v["raw"]),
        });
    }
    let layers = Ptr::new(layers);
    let stack = Stack {
        units: Units::Nano,
        prim: PrimitiveLayer::new(Xy::new(DbUnits(iz(&s["prim"][0])), DbUnits(iz(&s["prim"][1])))),
        metals,
        vias,
        rawlayers: Some(layers.clone()),
        boundary_layer: Some(boundary),
    };
    (stack, layers)
}

fn cross(v: &[Value]) -> TrackCross {
    TrackCross::from_parts(uz(&v[0]), uz(&v[1]), uz(&v[2]), uz(&v[3]))
}

fn build_lib(cells: &Value) -> Library {
    let mut lib = Library::new("c08lib");
    let mut ptrs: Vec<Ptr<Cell>> = Vec::new();
    for (ci, c) in cells.as_array().expect("cells").iter().enumerate() {
        let name = format!("c{}", ci);
        let outline = Outline::rect(iz(&c["outline"][0]), iz(&c["outline"][1])).expect("outline");
        let mut insts: Vec<Instance> = Vec::new();
        for (k, i) in c["insts"].as_array().map(|a| a.as_slice()).unwrap_or(&[]).iter().enumerate() {
            insts.push(Instance {
                inst_name: format!("i{}", k),
                cell: ptrs[uz(&i["cell"])].clone(),
                loc: Place::Abs(Xy::new(PrimPitches::x(iz(&i["loc"][0])), PrimPitches::y(iz(&i["loc"][1])))),
                reflect_horiz: i["rh"].as_bool().unwrap_or(false),
                reflect_vert: i["rv"].as_bool().unwrap_or(false),
            });
        }
        let cuts: Vec<TrackCross> = c["cuts"].as_array().map(|a| a.as_slice()).unwrap_or(&[]).iter()
            .map(|v| cross(v.as_array().expect("cut"))).collect();
        let assignments: Vec<Assign> = c["assigns"].as_array().map(|a| a.as_slice()).unwrap_or(&[]).iter()
            .map(|v| {
                let a = v.as_array().expect("assign");
                let k = a[0].as_i64().expect("net");
                let net = if k == 0 { String::new() } else { format!("n{}", k) };
                Assign { net, at: cross(&a[1..]) }
            }).collect();
        let layout = Layout {
            name: name.clone(),
            metals: uz(&c["metals"]),
            outline,
            instances: PtrList::from_owned(insts),
            assignments,
            cuts,
            places: Vec::new(),
        };
        ptrs.push(lib.cells.insert(Cell::from(layout)));
    }
    lib
}

fn net_code(n: &Option<String>) -> i64 {
    match n {
        None => 0,
        Some(s) if s == "VDD" => -1,
        Some(s) if s == "VSS" => -2,
        Some(s) => match s.strip_prefix('n').and_then(|t| t.parse::<i64>().ok()) {
            Some(k) if k > 0 => k,
            _ => -99,
        },
    }
}

fn pitches(vs: &ValidStack) -> Vec<i64> {
    vs.pitches.iter().map(|p| p.0 as i64).collect()
}

fn run(case: &Value) -> Value {
    let op = case["op"].as_str().unwrap_or("compile");
    let (stack, layers) = build_stack(&case["stack"]);
    let vstack = match stack.validate() {
        Ok(v) => v,
        Err(e) => return json!({ "stack_err": format!("{:?}", e) }),
    };
    let pit = pitches(&vstack);
    if op == "tracks" {
        // center / span of the first n signal tracks of every metal (public ValidMetalLayer API)
        let n = uz(&case["n"]);
        let mut out = Vec::new();
        let mut li = 0;
        while let Ok(m) = vstack.metal(li) {
            let mut row = Vec::new();
            for k in 0..n {
                let c = m.center(k).expect("center");
                let (a, b) = m.span(k).expect("span");
                row.push(json!([c.0, a.0, b.0]));
            }
            out.push(Value::Array(row));
            li += 1;
        }
        return json!({ "tracks": out, "pitches": pit });
    }
    let lib = build_lib(&case["cells"]);
    let ncells = lib.cells.len();
    let rawlib = match lib.to_raw(vstack) {
        Ok(r) => r,
        Err(e) => {
            let mut s = format!("{:?}", e);
            s.truncate(300);
            return json!({ "err": s });
        }
    };
    let rawlib = rawlib.read().expect("rawlib lock");
    let layers = layers.read().expect("layers lock");
    let mut out = Vec::new();
    if rawlib.cells.len() != ncells {
        return json!({ "harness_error": "cell count differs" });
    }
    for (ci, cptr) in rawlib.cells.iter().enumerate() {
        let c = cptr.read().expect("cell lock");
        if c.name != format!("c{}", ci) {
            return json!({ "harness_error": "cell order differs" });
        }
        let lay = match c.layout.as_ref() {
            Some(l) => l,
            None => return json!({ "harness_error": "cell without layout" }),
        };
        let mut shapes = Vec::new();
        for e in lay.elems.iter() {
            let l = layers.get(e.layer).expect("layer key");
            let purp = l.num(&e.purpose).map(|p| p as i64).unwrap_or(-1);
            let id = (l.layernum as i64) * 1000 + purp;
            match &e.inner {
                raw::Shape::Rect(r) => shapes.push(json!([id, r.p0.x, r.p0.y, r.p1.x, r.p1.y, net_code(&e.net)])),
                _ => return json!({ "harness_error": "non-rect element" }),
            }
        }
        out.push(Value::Array(shapes));
    }
    json!({ "ok": out, "pitches": pit })
}

fn main() {
    l21h::main_loop(run);
}
